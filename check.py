#!/venv/bin/python -B
"""
CLI of the verification machinery.

  check.py <ID> [--tier quick|thorough] [--runs N] [--start K] [--workers W]
  check.py <ID> --replay FILE
  check.py selftest-determinism [--runs N] [IDs...]
  check.py selftest-mutants [IDs...]

Exit 0: property held on everything explored (KNOWN-FINDING lines allowed).
Exit 1: "VIOLATION property=<id> replay=<path>" printed for each new violation.
Exit 2: the machinery itself failed (never reported as a pass or as a finding).
"""
import json
import os
import sys
import time

HERE = os.path.dirname(os.path.abspath(__file__))
if HERE not in sys.path:
    sys.path.insert(0, HERE)
sys.dont_write_bytecode = True

from sim import core  # noqa: E402
from checks import known  # noqa: E402

ALL = ["C09", "C10", "C16", "C17", "C18", "C20"]
MAX_REPORT = 6

COMPONENTS = {
    "real": [
        "svgelements/svgelements.py from the working tree of %s (sha256 recorded)" % core.REPO,
        "xml.etree.ElementTree / expat, gzip, io.BufferedWriter/BufferedReader/TextIOWrapper (stdlib, unmodified)",
    ],
    "stub": ["raw file object + directory (sim/simfs.py) for names under /simfs/", "stream delivery object SimStream"],
}


def log(*a):
    print(*a, file=sys.stderr, flush=True)


def load_mod(prop):
    import importlib

    return importlib.import_module("checks." + prop.lower())


def do_replay(prop, path):
    mod = load_mod(prop)
    with open(path) as f:
        body = json.load(f)
    case = body["case"]
    for earlier in (body.get("history") or [])[:-1]:
        core.run_case(mod, earlier, wall_limit=120)  # the recorded predecessors, in order, in this very process
    out = core.run_case(mod, case, keep_trace=True, wall_limit=120)
    want = body.get("violation", {})
    print("replay %s: status=%s oracle=%s sig=%s" % (path, out.status, out.oracle, out.sig))
    if out.detail:
        print("detail: %s" % out.detail)
    if out.status == core.HARNESS_ERROR:
        print("HARNESS-ERROR during replay")
        return 2
    if out.status in (core.VIOLATION, core.TIMEOUT):
        same = out.oracle == want.get("oracle")
        print("digest %s (%s recorded %s)" % (out.digest, "==" if out.digest == body.get("trace_digest") else "!=", body.get("trace_digest")))
        if body.get("code_sha256") != core.code_fingerprint():
            print("note: svgelements.py differs from the tree the replay was recorded on")
        if not same:
            print("note: a different oracle fired than recorded (%s)" % want.get("oracle"))
        print("VIOLATION property=%s replay=%s" % (prop, path))
        return 1
    print("not reproduced: the property holds on this case with the current tree")
    return 0


def handle_timeouts(mod, prop, res):
    """Re-run wall-clock timeouts in isolation with a generous limit."""
    confirmed = []
    # each confirmation of a real hang costs the whole limit: the three smallest cases stand for the rest
    todo = sorted(res["timeouts"], key=lambda t: len(core.canon(t[1])))[:3]
    for i, case in todo:
        out = core.run_case(mod, case, wall_limit=180)
        if out.status == core.TIMEOUT:
            od = out.as_dict()
            od["known"] = known.match(prop, case, od)
            confirmed.append((i, case, od))
        elif out.status == core.VIOLATION:
            od = out.as_dict()
            od["known"] = known.match(prop, case, od)
            confirmed.append((i, case, od))
    return confirmed


def run_check(prop, tier, runs=None, start=0, workers=None, write_evidence=True):
    mod = load_mod(prop)
    base = core.base_seed()
    if runs is None:
        runs = mod.QUICK_RUNS if tier == "quick" else mod.THOROUGH_RUNS
        scale = os.environ.get("VERIF_SCALE")
        if scale:
            runs = max(100, int(runs * float(scale)))
    wall_cap = float(os.environ.get("VERIF_WALL_CAP", "0") or 0) or None
    t0 = time.time()
    log("[%s] tier=%s seed=%d runs=%d workers=%d repo=%s" % (prop, tier, base, runs, workers or core.n_workers(), core.REPO))
    res = core.run_batch(prop, base, runs, tier, workers=workers, wall_cap=wall_cap, start=start)
    timeouts = handle_timeouts(mod, prop, res) if res["timeouts"] else []

    new = []
    known_hit = {}
    items = sorted(res["viol"].values(), key=lambda v: v[0])
    for size, i, case, od in items:
        if od.get("known"):
            known_hit.setdefault(od["known"], (i, case, od))
        else:
            new.append((i, case, od))
    for i, case, od in timeouts:
        if od.get("known"):
            known_hit.setdefault(od["known"], (i, case, od))
        else:
            new.append((i, case, od))

    rc = 0
    replay_paths = []
    harness_msgs = []
    if res["nharness"]:
        rc = 2
        for i, msg in res["harness"][:3]:
            harness_msgs.append("run %d: %s" % (i, msg))

    # one exemplar per oracle tag first, then the rest, up to MAX_REPORT
    seen_oracles = set()
    ordered = []
    for v in new:
        if v[2]["oracle"] not in seen_oracles:
            seen_oracles.add(v[2]["oracle"])
            ordered.append(v)
    for v in new:
        if v not in ordered:
            ordered.append(v)
    for i, case, od in ordered[:MAX_REPORT]:
        oracle = od["oracle"]
        if od["status"] == core.TIMEOUT:
            small, execs = case, 0
        else:

            def accept(c, o):
                return known.match(prop, c, o) is None

            small, execs = minimise_with_accept(mod, case, oracle, accept)
        alone = core.run_history_in_fresh_process(prop, [small])
        history = None
        if alone is None or alone.get("status") not in (core.VIOLATION, core.TIMEOUT) or alone.get("oracle") != oracle:
            # not reproducible on its own: does it depend on the runs before it in its chunk?
            history = history_dependent(mod, prop, base, tier, i, case, od)
            if history is None:
                rc = 2
                harness_msgs.append("violation of run %d reproduces neither alone nor after its chunk prefix in a fresh process (%s)" % (i, od))
                continue
            small, execs = case, 0
            od2 = dict(od)
            od2["detail"] = "[depends on %d earlier call(s) in the same process - state leaks between calls] %s" % (len(history) - 1, od.get("detail") or "")
        else:
            od2 = alone
        path = core.write_replay(prop, base, i, small, od2, small is not case, execs, history=history)
        ok, text = core.replay_in_fresh_process(prop, path)
        if not ok:
            rc = 2
            harness_msgs.append("replay of %s did not reproduce in a fresh process:\n%s" % (path, text[-1500:]))
            continue
        replay_paths.append(path)
        print("VIOLATION property=%s replay=%s" % (prop, path))
        print("  oracle=%s sig=%s" % (od2["oracle"], od2["sig"]))
        print("  %s" % (od2["detail"] or "")[:600])
        if rc == 0:
            rc = 1
    if len(ordered) > MAX_REPORT:
        print("(%d further distinct violation signatures not minimised: %s)" % (len(ordered) - MAX_REPORT, [(o["oracle"], o["sig"]) for _, _, o in ordered[MAX_REPORT:MAX_REPORT + 10]]))

    kf = {k["id"]: k for k in known.known_for(prop)}
    for kid in sorted(known_hit):
        print("KNOWN-FINDING: property=%s %s [%s, %d runs]" % (prop, kf[kid]["what"], kid, res["counters"].get("known:" + kid, 0)))

    wall = time.time() - t0
    if write_evidence:
        write_evidence_file(mod, prop, tier, base, res, wall, len(new), sorted(known_hit), replay_paths, start)
    c = res["counters"]
    log("[%s] runs=%d violations=%d (new signatures %d, known %s) harness=%d distinct=%d wall=%.1fs rate=%.0f/h digest=%s" % (
        prop, res["runs_done"], res["nviol"], len(new), sorted(known_hit), res["nharness"], len(res["abstract"]), wall,
        res["runs_done"] / max(wall, 1e-9) * 3600, res["digest"][:16]))
    if harness_msgs:
        for m in harness_msgs:
            print("HARNESS-ERROR property=%s %s" % (prop, m))
    if res.get("truncated"):
        log("[%s] batch truncated by wall cap" % prop)
    return rc


def history_dependent(mod, prop, base, tier, index, case, od, budget=60):
    """The violation of run `index` did not reproduce alone. Re-execute its chunk prefix in a fresh
    interpreter; if that reproduces it, shrink the prefix (ddmin over the predecessor runs) and return
    the minimal list of cases [predecessors..., case]; else None."""
    lo = od.get("chunk_lo")
    if lo is None or lo >= index:
        return None
    oracle = od["oracle"]
    pred = []
    for j in range(lo, index):
        try:
            pred.append(mod.generate(core.run_seed(base, prop, j), j, tier))
        except Exception:
            return None

    def fails(cases):
        r = core.run_history_in_fresh_process(prop, cases + [case])
        return r is not None and r.get("status") == core.VIOLATION and r.get("oracle") == oracle

    if not fails(pred):
        return None
    execs = 1
    improved = True
    while improved and execs < budget and pred:
        improved = False
        for cand in core.ddmin_list(pred):
            execs += 1
            if fails(cand):
                pred = cand
                improved = True
                break
            if execs >= budget:
                break
    return pred + [case]


MINIMISE_WALL = 240.0


def minimise_with_accept(mod, case, oracle, accept, budget=400):
    """Greedy one-step reduction. The wall cap only decides how far a slow case (a runaway parse costs seconds per
    execution) is shrunk, never the verdict; whatever is written replays exactly."""
    execs = 0
    cur = case
    improved = True
    t0 = time.time()
    while improved and execs < budget and time.time() - t0 < MINIMISE_WALL:
        improved = False
        for cand in mod.shrink(cur):
            if execs >= budget or time.time() - t0 >= MINIMISE_WALL:
                break
            execs += 1
            out = core.run_case(mod, cand)
            if out.status == core.VIOLATION and out.oracle == oracle and accept(cand, out.as_dict()):
                cur = cand
                improved = True
                break
    return cur, execs


def _group(counters, prefix):
    return {k[len(prefix):]: v for k, v in sorted(counters.items()) if k.startswith(prefix)}


def write_evidence_file(mod, prop, tier, base, res, wall, n_new, known_ids, replay_paths, start):
    c = res["counters"]
    runs = res["runs_done"]
    samples = []
    for s in res["samples"][:3]:
        samples.append(s)
    if not samples:
        samples.append({"note": "no passing sample retained"})
    cov = {
        "evaluations": int(runs),
        "distinct_nontrivial": int(len(res["abstract"])),
        "rule": mod.RULE,
        "samples": samples,
        "exhaustive": False,
        "seeds": {"verif_seed": base, "first_run_index": start, "last_run_index": start + runs - 1, "per_run_seed": "sha256(VERIF_SEED/property/index)[:8]"},
        "runs_per_hour": int(runs / max(wall, 1e-9) * 3600),
        "simulated_time": {"events": int(c.get("events", 0)), "line_steps_in_svgelements": int(res["steps"]), "note": "the library has no clock; simulated time is the global event sequence number (operations, I/O calls, injected faults) and, where the termination oracle runs, interpreter line events inside svgelements.py"},
        "faults_fired": _group(c, "fault:"),
        "operations": _group(c, "op:"),
        "probes": _group(c, "probe:"),
        "skips": _group(c, "skip:"),
        "violating_runs": int(res["nviol"]),
        "new_violation_signatures": int(n_new),
        "known_findings_hit": {k: int(c.get("known:" + k, 0)) for k in known_ids},
        "replays": replay_paths,
        "batch_digest": res["digest"],
        "code_sha256": core.code_fingerprint(),
        "components": COMPONENTS,
        "harness_errors": int(res["nharness"]),
        "truncated": bool(res.get("truncated")),
    }
    ev = {
        "property_id": prop,
        "tier": tier,
        "seed": int(base),
        "level": mod.LEVEL,
        "coverage": cov,
        "assumptions": getattr(mod, "ASSUMPTIONS", []) + [
            "seeded sampling, not enumeration: a clean batch is evidence, not proof",
            "pure-Python code paths only (numpy/scipy/PIL absent, as in the pinned test environment)",
        ],
        "wall_s": round(wall, 3),
        "violations": int(n_new),
    }
    d = os.path.join(HERE, "evidence")
    os.makedirs(d, exist_ok=True)
    tmp = os.path.join(d, ".%s.json.tmp" % prop)
    with open(tmp, "w") as f:
        json.dump(ev, f, indent=1, sort_keys=True, default=str)
        f.write("\n")
    os.replace(tmp, os.path.join(d, "%s.json" % prop))


def main(argv):
    if not argv:
        print(__doc__)
        return 2
    cmd = argv[0]
    opts = {}
    rest = []
    it = iter(argv[1:])
    for a in it:
        if a.startswith("--"):
            opts[a[2:]] = next(it, None)
        else:
            rest.append(a)
    if cmd == "selftest-determinism":
        from sim import selftest

        return selftest.determinism(rest or ALL, int(opts.get("runs") or 600))
    if cmd == "selftest-mutants":
        from sim import selftest

        return selftest.mutants(rest or ALL)
    prop = cmd.upper()
    if prop not in ALL:
        print("unknown property %s" % prop)
        return 2
    if "replay" in opts:
        core.apply_mem_cap()
        return do_replay(prop, opts["replay"])
    if "run-history" in opts:
        core.apply_mem_cap()
        mod = load_mod(prop)
        with open(opts["run-history"]) as f:
            cases = json.load(f)["cases"]
        out = None
        for c in cases:
            out = core.run_case(mod, c, wall_limit=120)
        print("HISTORY-RESULT " + json.dumps(out.as_dict() if out is not None else None))
        return 0
    tier = opts.get("tier") or os.environ.get("VERIF_TIER") or "quick"
    if tier not in ("quick", "thorough"):
        tier = "quick"
    runs = int(opts["runs"]) if opts.get("runs") else None
    start = int(opts.get("start") or 0)
    workers = int(opts["workers"]) if opts.get("workers") else None
    return run_check(prop, tier, runs=runs, start=start, workers=workers, write_evidence=not opts.get("noevidence"))


if __name__ == "__main__":
    try:
        rc = main(sys.argv[1:])
    except KeyboardInterrupt:
        rc = 2
    except BaseException:
        import traceback

        traceback.print_exc()
        print("HARNESS-ERROR uncaught exception in the driver")
        rc = 2
    sys.stdout.flush()
    sys.exit(rc)
