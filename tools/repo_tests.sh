#!/bin/sh
# Runs the repository's own suite and succeeds only if exactly the pinned 404 tests pass.
out=$(cd /repo && /venv/bin/python -m pytest -q -p no:cacheprovider --timeout=900 -n 8 2>&1 | tail -1)
echo "$out"
echo "$out" | grep -q "404 passed" 
