#!/venv/bin/python -B
"""debug helper: list distinct violation signatures of a batch with the smallest exemplar."""
import sys, os, json
sys.path.insert(0, os.path.dirname(os.path.dirname(os.path.abspath(__file__))))
from sim import core
prop = sys.argv[1]; runs = int(sys.argv[2]) if len(sys.argv) > 2 else 4000
res = core.run_batch(prop, core.base_seed(), runs, "quick")
print("runs", res["runs_done"], "violating", res["nviol"], "harness", res["nharness"])
for h in res["harness"][:3]: print("HARNESS", h)
for (k, (size, i, case, od)) in sorted(res["viol"].items(), key=lambda kv: (kv[0][0], kv[1][0])):
    brief = case.get("s") if isinstance(case, dict) and "s" in case else None
    print(od["oracle"], od["sig"], "known=%s" % od.get("known"), "run", i)
    print("    ", (od["detail"] or "")[:300].replace("\n", " "))
