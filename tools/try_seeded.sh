#!/bin/sh
# usage: try_seeded.sh <PROP> <worktree> <i> [runs]
# Confirms a seeded change in its scratch worktree: demo passes without it, fails with it, suite still 404 passed;
# then runs the registered quick check of PROP against the worktree with the change applied.
P=$1; W=$2; I=$3; RUNS=${4:-}
set -u
git -C $W checkout -q -- svgelements
echo "--- demo on clean tree"; /venv/bin/python -B $W/_out/demo$I.py $W >/dev/null 2>&1; echo "exit $?"
git -C $W apply $W/_out/change$I.diff || { echo "PATCH DOES NOT APPLY"; exit 3; }
echo "--- demo with change"; /venv/bin/python -B $W/_out/demo$I.py $W 2>&1 | tail -3; /venv/bin/python -B $W/_out/demo$I.py $W >/dev/null 2>&1; echo "exit $?"
if [ "${SKIP_SUITE:-0}" != "1" ]; then
echo "--- suite with change"; (cd $W && PYTHONPATH=$W /venv/bin/python -m pytest -q -p no:cacheprovider --timeout=900 -n 8 2>&1 | tail -1)
fi
echo "--- check $P against the changed tree"
mkdir -p /var/tmp/seeded-replays
if [ -n "$RUNS" ]; then EXTRA="--runs $RUNS"; else EXTRA=""; fi
VERIF_REPO=$W VERIF_REPLAY_DIR=/var/tmp/seeded-replays /verif/check $P $EXTRA --noevidence 1 2>&1 | grep -v "^KNOWN" | cut -c1-400 | tail -12
echo "exit of check: see VIOLATION lines above"
git -C $W checkout -q -- svgelements
