#!/venv/bin/python -B
"""Copies the confirmed seeded changes into /verif/seeded/<id>/ and runs the property's check against each
(on a scratch copy of /repo's sources), recording which oracle catches it in meta.json."""
import json, os, re, shutil, subprocess, sys
HERE = os.path.dirname(os.path.dirname(os.path.abspath(__file__)))
NEEDS = {
 "c09-1": ("C09", "one SVGLexicalParser instance shared by all Path.parse() calls: its inline_close flag survives a failed parse", "a two-call history in one process: a parse that fails with the error position right after a 'z' token, then a parse of data whose last command lacks its operand (e.g. 'M 3,4 L 10,0 L'): the stale 'z' stands in for the operand, no ValueError, a phantom segment", "missed at first (each run parsed in isolation and the phantom segment passed as leniency); caught after adding the history-independence oracle (poison parses between two parses of the same string) and hermetic chunks with history-dependent replay"),
 "c09-2": ("C09", "the absolute L branch collects its coordinate pairs and calls the builder once after the loop", "upper-case L with at least two implicit pairs and a dangling single number in a later pair: the earlier valid lines are lost", "caught from the start"),
 "c09-3": ("C09", "Path.arc() checks for a missing current point once, as 'no segments yet'", "data that starts with a bare z/Z followed directly by A/a: TypeError instead of ValueError", "caught from the start"),
 "c10-1": ("C10", "the end event of a display=none element restores only context and values from the stack", "an embedded svg with a zero-sized viewBox (it sets the percentage base before disabling itself) followed by a sibling with % lengths", "caught from the start"),
 "c10-2": ("C10", "use expansion tracks active references in one shared list; the pop is skipped when a dangling reference raises KeyError", "a dangling use nested in an id'd container that is instantiated by a use placed earlier than the container, plus a later use of it: later instances come back empty, nothing raises", "missed at first: my exempt set also covered every use pointing at a container that holds the offending element; tightened to what the property says (only the offending element's own subtree), and use-heavy documents with an 'inside a used container' fault bias were added"),
 "c10-3": ("C10", "TypeError removed from the two guarded regions of SVG.parse", "an svg whose viewBox has fewer than four numbers together with a percentage stroke-width on a descendant (and, as the check found, several single faults such as transform='translate(1,2,3) matrix(1)')", "caught from the start"),
 "c16-1": ("C16", "Subpath.reverse delegates the close re-link to Path._validate_close", "a closed subpath without its own move (after a close, reversed through its view; or a closed leading fragment)", "caught from the start"),
 "c16-2": ("C16", "Path.reverse decides 'leading' by the original-first subpath instead of the output-first one", "an open fragment without a leading move as first subpath plus at least one more subpath, whole-path reverse", "caught from the start"),
 "c16-3": ("C16", "Subpath.reverse assigns the move's end without re-wrapping the Point (aliasing)", "a view reversal of a subpath with its own move followed by an in-place transform of the backing path", "caught from the start (transform+reify operations are part of the histories)"),
 "c17-1": ("C17", "the lexer treats a leading m of every parsed string as absolute", "b begins with lower-case m and a ends away from the origin; any string append form", "caught from the start"),
 "c17-2": ("C17", "z_point reads a _last_move index that the copying constructor branches do not maintain", "append through a copy (p + b), a has two or more moves, b closes before its own first move", "caught from the start"),
 "c17-3": ("C17", "path += path goes through the operand's d() text", "Path + Path where the operand begins with a relative m and a ends away from the origin", "caught from the start"),
 "c18-1": ("C18", "path + path extends with the right operand's own segment objects", "+ or += with a Path/Subpath right operand: the operator writes a start point into the operand's leading Move", "caught from the start"),
 "c18-2": ("C18", "Path(subpath) hands over fill and stroke without re-wrapping the Color", "a subpath turned into a path on a backing path that has a stroke/fill, then an in-place colour edit", "caught from the start (structural probe finds the shared Color)"),
 "c18-3": ("C18", "x * M returns x itself when M is the identity", "x * M on a transformable element with M exactly identity ('', 'scale(1)', Matrix()), then any mutation of one side", "missed at first (the multiplier was never the identity); caught after adding the identity in several spellings to the derivation's multipliers"),
 "c20-1": ("C20", "the svgz branch of write() closes the gzip file in a finally that returns", "the .svgz by-name channel, an I/O error on one raw write that does not repeat during close: write_xml returns normally with a truncated file", "caught from the start (no-silent-loss oracle)"),
 "c20-2": ("C20", "opacity is written only when truthy: an alpha of exactly 0 is dropped", "a fill or stroke whose alpha is exactly 0 through the colour value itself (#rrggbb00, rgba(r,g,b,0))", "missed at first (no generated colour had alpha 0); caught after adding such colours to both generators"),
 "c20-3": ("C20", "the inverse viewport transforms of nested svg elements are composed on the wrong side", "an embedded svg with its own viewBox inside an svg whose viewBox transform is also not the identity and does not commute with it", "caught from the start"),
}

ROUND2 = {
 "c09-4": ("C09", "Path.z_point rewritten with early returns: it stops at the nearest Move or Close and hands out a leading close's None end", "a leading z, then a drawing command, then Q/T/C/S/A with an inline close ('z L 5,5 Q 1,1 z'): a segment with end None is retained, bbox()/length()/d(relative) raise afterwards", "caught by one run in 60000 at first (usable/coordinate); fragments with a leading close followed by inline closes were added, now hundreds of runs"),
 "c09-5": ("C09", "Arc.bbox early exit requires start == end in addition to sweep == 0", "a zero-radius arc between distinct points ('M0,0 A 0 5 30 1 1 5 5'): bbox() on the parsed path raises ZeroDivisionError", "caught from the start (usable oracle)"),
 "c09-6": ("C09", "_rcoord dereferences the current point unless the path is empty", "a leading z followed by a relative pair command ('z m 5,5 l 1,1'): AttributeError", "caught from the start"),
 "c10-4": ("C10", "the style-declaration loop unpacks key, value = equate.split(':')", "a style attribute with a declaration holding two or more colons: ValueError before the guarded region", "caught from the start (style-attribute faults had just been added)"),
 "c10-5": ("C10", "the end-event error handler for text/tspan continues without popping the stack", "a text/tspan whose own attributes raise, followed by more elements: later siblings inherit its values", "caught from the start"),
 "c10-6": ("C10", "the 's = None' before the shape constructors was removed", "a constructor ValueError (rotate(1e400), fill=rgb(1e400,0,0)) on the first child of a container or right after text/title/desc: AttributeError or a duplicated text", "caught from the start"),
 "c16-4": ("C16", "_reverse_segments compares the pair of segments by value instead of identity", "a retraced stroke inside one subpath (a->b ... b->a)", "caught from the start"),
 "c16-5": ("C16", "Arc.reverse returns early when start == end", "a whole ellipse held as one Arc (start == end, |sweep| = tau), which only the API can build", "missed at first (paths came from path data only); caught after adding a programmatically built full-turn arc subpath to the workload"),
 "c16-6": ("C16", "Subpath.reverse re-links the segment after its close", "a closed subpath with a non-zero-length close directly followed by a subpath without its own move", "caught from the start"),
 "c17-4": ("C17", "the lexer remembers the previous command for smooth controls and starts every parse() with no memory", "a piece that begins with T/t/S/s appended after the matching curve", "caught from the start"),
 "c17-5": ("C17", "segment + string parses the string on its own and links the segment in front", "a single segment + data with relative pairs, h/v, or a close", "caught from the start"),
 "c17-6": ("C17", "path += shape extends with abs(shape)'s segments", "Path + Rect/Circle/Ellipse whose transform has a rotation, skew or negative scale", "caught from the start"),
 "c18-4": ("C18", "Text.property_by_object takes every attribute with self.__dict__.update(s.__dict__)", "a Text with an outline .path assigned, a copy/x*M/abs, then an in-place mutation of that path", "missed at first (no generated Text had a path; adding it also exposed that the unmodified library drops the path on copy, repaired in 49eed82)"),
 "c18-5": ("C18", "Length.__imul__ percent branch scales the right operand in place", "Length('50%') * Length with other units: the non-in-place * rescales its right operand", "missed at first (Length * Length was not among the derivations); caught after adding it"),
 "c18-6": ("C18", "Point.__radd__ returns self when the left operand is a numeric zero", "0 + p or sum([p]) followed by an in-place operation on the result", "missed at first; caught after adding 0 + x / sum([x]) derivations and the 'operator handed back its operand' oracle"),
 "c20-4": ("C20", "opacities are written rounded to two decimals", "#rrggbbaa colours whose alpha/255 needs more than two decimals", "caught from the start"),
 "c20-5": ("C20", "stroke-width is only written when it differs from 1.0", "reify=True and a source width times the transform scale equal to exactly 1.0: the copied source attribute survives", "caught from the start"),
 "c20-6": ("C20", "the use-to-g branch recurses without the inverse viewport transform", "a use element together with a non-identity viewBox/viewport", "caught from the start"),
}

ROUND3 = {
 "c09-7": ("C09", "Path.arc() takes any string end point: 'z' goes to the closing point, anything else through Point(text)", "an arc whose end point is an inline close written upper-case ('A 5,5 0 0 1 Z'): IndexError out of parse", "caught by one run in 60000 at first; inline closes are now generated in either case and listed among the fragments"),
 "c09-8": ("C09", "the lexer returns int for whole-number tokens", "a number written as 309..4300 plain digits: the retained int cannot become a float, d()/bbox()/length() raise OverflowError (in arcs the parse itself)", "missed at first (no such literals; huge values skipped the follow-up operations); caught after adding extreme literals and judging an exact int like any real number"),
 "c10-7": ("C10", "Color.parse memoised in a class-level table keyed by the blank-stripped lower-case text", "a malformed near-spelling ('#ff 0000') parsed before the first well-formed use of that colour in the process; every later well-formed sibling is painted black; an in-process reference is poisoned alike", "missed at first; caught after the reference parse was given a pristine instance of the library and colour faults became near-spellings of a run-unique colour that a later sibling states well-formed"),
 "c10-8": ("C10", "the expansion of each use target is memoised per document by id, ignoring the cycle guard's context", "a chain A -> B with an offending use B -> A: A's expansion inside the cycle is truncated and replayed for a later valid use of A, which loses B's content", "missed at first (my exempt set covered every element a use inside the offender reaches, anywhere); caught after the exemption became positional (only nodes under the offender in the returned tree) and chain cycles with one offending element were generated"),
 "c16-7": ("C16", "subpath()/count_subpaths() keep a window table that Path.reverse() mirrors instead of dropping", "a subpath lookup, then a whole-path reverse that has to insert a move, then a reversal through subpath(i)", "caught from the start"),
 "c16-8": ("C16", "Path.reverse() skips the move of a re-attached move-less subpath when the path built so far already ends there", "a move-less subpath after a close, another subpath after it whose move goes exactly to the fragment's end point", "caught from the start"),
 "c17-7": ("C17", "the last Move is memoised for z_point; extend() does not refresh it", "Path(a), then += Path(b) with its own move, then += a string that closes before any new move", "caught from the start (path-object appends inside string histories had just been added)"),
 "c17-8": ("C17", "Path.parse() memoised in a class-level table keyed by (text, current point, subpath start) - not the smooth control", "the same piece text beginning with T/t/S/s appended earlier in the process to a path ending at the same point with a different last control", "missed at first; caught after adding twin histories (same history on a path differing in one control point) and a pristine-instance one-shot reference"),
 "c18-7": ("C18", "cached Subpath views (site 1) and Path(Path) inheriting the source's caches (site 2)", "a subpath lookup on the source, then copy/Path(x)/x*M/abs(x), then result.subpath(i) *= M or .reverse(): the source is mutated", "missed at first; caught after adding observer warm-up before the derivation and mutations through subpath views of the result"),
 "c18-8": ("C18", "Path(shape) adopts freshly built segments (site 1) and Rect caches its rounded outline, returning the stored tuple on a miss (site 2)", "a rounded Rect whose first-ever outline request is Path(x), then an in-place mutation of the result", "missed at first (my snapshots never asked the source what it draws, and the derivation's reference asked it too early); caught after adding cold sources compared with an untouched twin at the end, and deriving before observing"),
 "c20-7": ("C20", "the writer folds the inverse viewport transform into the node's own matrix in place", "a non-identity viewBox, a shape that keeps its own transform, and a second write of the same tree object", "caught from the start (writing-is-an-observer oracle had just been added)"),
 "c20-8": ("C20", "a module-level memo of attribute text keyed by value (True == 1 == 1.0)", "a constructor-built Path(d=...) whose values hold pathd_loaded=True is the first 'one' the process formats: every later 1.0 is written 'True'", "missed at first; caught after comparing the text with what a pristine instance of the library writes for the same source, and building paths with the d keyword"),
}
ROUND4 = {
 "c09-9": ("C09", "the lexer's 'does another argument group follow?' peeks at one character instead of matching a number token", "a lone '.', '-.' or '+.' after a move's first pair ('M1,1 .'): the implicit-lineto loop appends a Line with a None end for ever (no return, unbounded memory)", "hung my harness at first (only some parses ran under the step budget, and nothing bounded memory); now every parse of the check runs under the deterministic step budget, chunk children have an address-space cap, and the hang is reported as a steps violation"),
 "c09-10": ("C09", "Arc parameterisation treats an arc as void only when its end points are exactly identical (was: within 1e-12)", "a chord below ~1e-154 ('M0,0 A 1 1 0 0 0 1e-200 0'): ZeroDivisionError out of parse, or an arc retained with NaN centre and sweep", "missed at first (no literal that small next to ordinary ones); caught after adding fragments with chords, radii and controls at the edges of the double range"),
 "c10-9": ("C10", "preserveAspectRatio split on any white space with a dispatch on the token count that has no else", "a preserveAspectRatio value of three or more tokens on an svg/image/pattern: UnboundLocalError escapes SVG.parse", "caught from the start (preserveAspectRatio faults had been added after round 3's reach audit)"),
 "c10-10": ("C10", "get_element_by_url indexes the first IRI match instead of looping over the matches", "a clip-path value that is not a complete url(...) - the legal keywords none / inherit, an empty value, '#c', 'url(#c' - on any element: IndexError after the guarded construction block", "missed at first (clip-path only ever held well-formed references); caught after clip-path became a fault target and faults may add an attribute the element did not state (clip-path, transform, style, paint)"),
 "c16-9": ("C16", "Arc.reverse folds whole turns out of the sweep, comparing with >=", "a single arc that is exactly one full turn (start == end, |sweep| = tau)", "caught from the start (full-turn arcs built through the API were added in round 2)"),
 "c16-10": ("C16", "runs of 25 or more segments are reversed through one slice assignment on the path (Path.__setitem__ validates and re-links)", "a subpath of at least 25 segments reversed through the path or a view", "missed at first (subpaths had at most a dozen segments); caught after adding a long-subpath stratum"),
 "c17-9": ("C17", "Path() + shape returns Path(shape) (pending transform, the shape's paint) instead of the baked outline appended to the empty path", "an empty left operand and a shape with a transform as right operand, then a further append", "missed at first (the left operand was never empty); caught after adding empty left operands and appends that continue after the shape"),
 "c17-10": ("C17", "path += other_path drops the operand's leading move when it goes to the current point", "a Path operand whose first move coincides with the left operand's end, followed by a close or a relative move in a later piece", "missed at first (operand moves never coincided with the current point); caught after adding coinciding moves"),
 "c18-9": ("C18", "copy(subpath) is a second window on the same backing path", "copy / * / + on a Subpath, then any mutation of either side", "caught from the start"),
 "c18-10": ("C18", "a group copy refers to the same Image children", "a Group with an Image child, copy / x*M / abs, then an in-place transform or attribute edit of one side", "missed at first (no generated group held an Image); caught after adding Image (and other non-shape) children to groups"),
 "c20-9": ("C20", "SVG.viewbox_transform is computed once and kept", "a parse or first write that reads viewbox_transform, then width/height/viewbox changed on the object, then a write", "missed at first (trees were written as parsed or built); caught after adding the touch phase: edits through the objects between parsing/building and writing, here the svg's size and viewBox"),
 "c20-10": ("C20", "the writer's trailing 'write id' block removed: ids only travel with the copied source attributes", "an element whose .id was assigned or changed on the object (r.id = 'shape0')", "caught from the start for built shapes (their ids are assigned on the object); the touch phase adds renamed and cleared ids of parsed elements"),
}

ROUND5 = {
 "c09-11": ("C09", "z_point and _validate_close fall back in O(1) to 'where the path began' instead of searching for an end point", "data that begins with z, has no move before the trigger, and completes a curve or arc by an inline close ('z L 1 1 A 1 1 0 0 0 z'): TypeError out of parse, or a curve with control=None on which d/bbox/length raise", "caught from the start (fragments with a leading close followed by inline closes, added in round 2)"),
 "c09-12": ("C09", "the ten L/T/Q/S/C branches become one table keyed by cmd.lower(), the command pattern compiled with re.IGNORECASE", "U+017F (long s) in command position: [s] matches it under IGNORECASE, its lower() is not 's', the table lookup raises KeyError", "missed at first (no junk character case-folds onto a command letter); caught after adding long s, Kelvin sign, dotless/dotted i, fullwidth and mathematical letters and digits to the junk characters"),
 "c10-11": ("C10", "the CSS keyword inherit is honoured for inherited presentation properties; the 'nothing to inherit' branch deletes from the dictionary being iterated", "a property other than fill/stroke/color whose value is inherit with no ancestor value (a top-level stroke-width='inherit'): RuntimeError before the element's try", "missed at first (the fault grammar held only malformed text); caught after CSS-wide and paint keywords (inherit, initial, unset, currentColor, none, auto, transparent) were offered to every attribute kind and inside style declarations"),
 "c10-12": ("C10", "currentColor chains are followed and color='currentColor' resolves to the inherited colour, the two steps in the wrong order", "one element with both color='currentColor' and fill/stroke='currentColor': SVG.parse never returns (a loop without a single function call)", "missed at first; caught after the keyword was put on both ends of its own chain on one element; reported by the line-step budget on the runs that count lines and by the wall-clock watchdog elsewhere (the coarse call counter cannot see a loop that calls nothing)"),
 "c16-11": ("C16", "Subpath.reverse no longer swaps the trailing close itself ('both ends are given by the segments around it')", "a subpath that is exactly one close of non-zero length, Path(Close((0,0),(30,40))), which only the API can build", "missed at first (the general model has no place for a close without a subpath to return to); caught by a dedicated oracle for the API-built lone close: the one drawn segment is replaced by its own reversal, twice restores it"),
 "c16-12": ("C16", "_reverse_segments re-links the segment after the reversed run only when it is the subpath's own close", "an open subpath reversed through a view when another subpath follows: the next move keeps a stale start; drawn geometry, d(), point, bbox, whole-path reverse and double reversal are all unaffected", "NOT caught, and not taken as a violation: a move's start is a back link that draws nothing, and the unmodified library itself leaves it stale whenever a closed subpath is reversed through its view (7000 of 30000 runs when I tried to demand it); 'a connected path' is judged on what is drawn (DESIGN.md 11)"),
 "c17-11": ("C17", "Path.append runs _validate_close only when the close has no end yet", "a Close object that states an end taken from another outline appended by +, += or append: the subpath is not closed to its own move, following l/z data continues from the foreign point", "missed at first (pieces only ever arrived as text or as Path objects); caught after adding a last piece that arrives as a segment object from another outline (close, line, quadratic, cubic; +, +=, append; optionally followed by relative data)"),
 "c17-12": ("C17", "Path.__add__ gets its own Subpath branch that slices the backing list with an exclusive end (the window is inclusive)", "Path(a) + path.subpath(i): the view's last segment (e.g. its z) is dropped", "missed at first (right operands were whole paths); caught after the right operand may be a subpath view of its path"),
 "c18-11": ("C18", "Length.__isub__ negates the right operand in place, adds, negates back, without try/finally", "units that do not convert (10mm - 3px, 2em - 1cm): the ValueError leaves the right operand with its sign flipped", "missed at first (a derivation that raised was skipped); caught after requiring that an operator that cannot be evaluated has still not modified its operands"),
 "c18-12": ("C18", "_RoundShape.segments() degenerate early return lost the restore of self.apply", "a circle or ellipse with a zero radius: Path(x), x + y, x == y leave apply=False on the operand", "caught from the start (degenerate radii were added in round 4)"),
 "c20-11": ("C20", "stroke-width is written through the restate() helper (falsy values dropped)", "a stroke width of exactly 0 (source, API edit, or reify under a singular transform): dropped, read back as the default 1.0", "missed at first (no stroke width was ever 0); caught after adding 0 to the stroke widths of documents, built shapes and touches"),
 "c20-12": ("C20", "the id is written through restate()", "an id that is falsy as a Python value ('' or '0'... dropped when falsy): reads back as None", "missed at first; caught after adding the ids '' and '0' to documents, built shapes and touches"),
}


def main():
    only = sys.argv[1:]
    table = dict(NEEDS)
    table.update(ROUND2)
    table.update(ROUND3)
    table.update(ROUND4)
    table.update(ROUND5)
    for sid, (prop, what, needs, history) in sorted(table.items()):
        if only and sid not in only:
            continue
        p, i = sid.split("-")
        src = "/tmp/seed-%s/_out" % p
        if int(i) > 10:
            src = "/tmp/seed5-%s/_out" % p
            i = str(int(i) - 10)
        elif int(i) > 8:
            src = "/tmp/seed4-%s/_out" % p
            i = str(int(i) - 8)
        elif int(i) > 6:
            src = "/tmp/seed3-%s/_out" % p
            i = str(int(i) - 6)
        elif int(i) > 3:
            src = "/tmp/seed2-%s/_out" % p
            i = str(int(i) - 3)
        d = os.path.join(HERE, "seeded", sid)
        os.makedirs(d, exist_ok=True)
        shutil.copy(os.path.join(src, "change%s.diff" % i), os.path.join(d, "patch.diff"))
        shutil.copy(os.path.join(src, "demo%s.py" % i), os.path.join(d, "demo.py"))
        if os.path.exists(os.path.join(src, "notes%s.md" % i)):
            shutil.copy(os.path.join(src, "notes%s.md" % i), os.path.join(d, "notes.md"))
        r = subprocess.run([os.path.join(HERE, "tools", "try_patch.py"), prop, os.path.join(d, "patch.diff")], capture_output=True, text=True)
        m = re.search(r"oracle=(\S+) sig=(\[.*?\])", r.stdout)
        nv = re.search(r"runs=(\d+) violations=(\d+)", r.stdout)
        meta = {
            "id": sid, "property": prop, "what": what, "needs_to_manifest": needs,
            "confirmed": "in a scratch worktree of /repo (checked out at main with all fix: commits) outside /repo and /verif: patch applies; pytest gives 21 failed (numpy/scipy), 404 passed, as on the unchanged tree; demo.py exits 0 without the change and 1 with it (tools/confirm_seeded.sh)",
            "check_run": "tools/try_patch.py %s seeded/%s/patch.diff (quick tier against a scratch copy of /repo's sources with the patch applied)" % (prop, sid),
            "check_exit": r.returncode, "caught": r.returncode == 1,
            "first_oracle": (m.group(1) + " " + m.group(2)) if m else None,
            "violating_runs": int(nv.group(2)) if nv else None, "runs": int(nv.group(1)) if nv else None,
            "history": history,
        }
        json.dump(meta, open(os.path.join(d, "meta.json"), "w"), indent=1)
        print(sid, prop, "caught" if meta["caught"] else "MISSED", meta["first_oracle"], meta["violating_runs"], flush=True)
main()
