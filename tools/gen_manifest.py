#!/usr/bin/env python3
"""Writes /verif/MANIFEST.json from the table below (kept in code so that the
manifest stays consistent with what is built)."""
import json, os
HERE = os.path.dirname(os.path.dirname(os.path.abspath(__file__)))

CLAIMED = {
    "C09": dict(
        level="fault_enumeration", ref="DESIGN.md 5.1",
        technique="deterministic simulation with fault injection on stored path data: seeded torn/lost/duplicated/corrupted records, crash-consistency oracles on the partially built path, deterministic step budget",
        text="Fault model on stored path data (truncation at any position, token delete/duplicate/replace, character flips incl. control/non-ASCII, junk insertion, missing current point, bad flags, very long inputs) injected into grammar-directed strings and bare fragments; each run checks exception type, a deterministic line-step budget linear in the input (termination; every parse of the run is under it), that the parse of the longest grammar-conforming prefix (independent recogniser) is retained unaltered, and that d()/bbox()/length()/abs(p*M) work on whatever was left behind; a history-independence oracle parses unrelated damaged data between two parses of the same string, the reference prefix is parsed by a pristine instance of the library, and runs execute in hermetic forked chunks so that a result depending on earlier calls is replayed with its minimal history. Fault kinds and positions are sampled per seed, not enumerated exhaustively.",
        note="Trusted: the independent SVG 2 grammar recogniser in sim/gen_path.py (where SVG 1.1 and 2 disagree the prefix oracle is skipped and counted); the step-budget constants (20x the pinned tree's maximum); None is accepted only where no current point exists yet (documented path fragments); inf/nan literals skip the follow-up operations."),
    "C16": dict(
        level="exploration", ref="DESIGN.md 5.3",
        technique="deterministic simulation: seeded histories of reversals through shared handles (path, fresh and stale subpath views) interleaved with transforms/copies/observers, checked step by step against an executable reference model",
        text="Seeded search over operation histories on one shared segment list reached through several handles (Path.reverse, Subpath.reverse via fresh and stale views, transform+reify, copy-and-continue, observers); after every step the real path is compared with a reference model (subpaths of sampled primitives, q(t)=p(1-t), sweep negated), connectivity is recomputed from public fields, untouched subpaths must be bit-identical, two consecutive reversals must restore the canonical form, and the reversed object's own point(t)/bbox() must agree with a cache-free copy (observers earlier in the history fill caches). One known finding (view reversal next to a move-less subpath) is listed in known_findings.json. Sampling, not proof.",
        note="Trusted: the model's independent subpath partition (SVG rule) and canonical form (a move-only subpath coinciding with a neighbouring point is dropped); tolerance 1e-9*scale, 1e-6*radius for interior arc samples (atan2/sqrt conditioning); arcs are only transformed by similarities/reflections; model re-based from the real path after transforms and copies so that C02/C18 defects cannot alarm here."),
    "C17": dict(
        level="exploration", ref="DESIGN.md 5.4",
        technique="deterministic simulation: seeded append histories checked step by step against a single-copy reference (one-shot parse)",
        text="Seeded search over append histories (split points, append forms p+b / p+=b / parse / segment+b, interleaved observers), every step compared with the one-shot parse of the concatenated text made by a pristine instance of the library; stratified so that every (last command of a, first command of b) pair occurs; twin histories (same pieces, one control point changed) and path-object appends inside string histories expose state kept between calls. Sampling, not proof: the space of strings is unbounded.",
        note="Trusted: the one-shot parse as reference (what C17 literally states); the generator's grammar coverage (every letter, implicit repetition, inline close); float comparison at 1e-9 relative. Arcs under shear and lazily transformed right operands are outside the property's quantifier and are not generated."),
}
CLAIMED["C18"] = dict(
        level="exploration", ref="DESIGN.md 5.5",
        technique="deterministic simulation: seeded two-owner mutation histories over source and derived object, structural probe for shared nodes, snapshot/equality oracles after every step",
        text="Seeded search over two-owner histories: for every element kind and derivation the property names (copy, x*M, abs, Path(x), Path(subpath), Group copy) up to 6 public mutations are interleaved on source and result, a structural probe places the first mutation on any node reachable from both; after each step the untouched owner's public snapshot and its == against a frozen deep copy must be unchanged; for +, -, ~ only what the property states (operands untouched by evaluation, and never handed back as the result) is demanded; sources are optionally warmed up by observers before the derivation or kept cold and compared at the end with an untouched twin. Sampling over kinds x derivations x mutation sequences, not proof.",
        note="Trusted: the snapshot covers the public attributes that carry geometry, transform, paint, values and children; value-at-derivation for x*M and abs(x) is differential against copy(x) followed by the in-place form; SVG (document root) and constructor-from-object on value types are outside the property's list and are not exercised.")
CLAIMED["C10"] = dict(
        level="fault_enumeration", ref="DESIGN.md 5.2",
        technique="deterministic simulation with fault injection on attribute values and on stream delivery: seeded faults x independently scheduled short-read delivery, differential isolation oracle against the document without the offending elements, deterministic step budget",
        text="1-3 attribute faults per run from a grammar of malformed values (path data, transform, colour, length incl. unresolvable em/ex, points, viewBox, number, style, preserveAspectRatio, clip-path; a fault may also add an attribute the element did not state, among them names the library uses as its own dictionary keys; rare strata: very long literals, nesting beyond the recursion limit, use chains, a bare group as outermost element) and use retargeting (missing, self, ancestor, mutual cycle), biased to containers, referenced elements and first/last children, injected into generated documents; the damaged document and the document without the offending elements reach SVG.parse through independently drawn delivery schedules (StringIO, BytesIO, short-read byte/text streams incl. 1-byte reads, simulated file with short raw reads). Oracles: no exception, an SVG object as result, bounded line steps on a quarter of the runs and a bound on function entries/generator resumptions relative to the document size on every other parse (a parse that never ends is a violation, not a stuck worker), identity of every instance outside the offender's position in the returned tree (reference parsed by a pristine instance of the library, schedule-chosen order of the two parses), and history independence (an unrelated document parsed between two parses of the same one). Faults and schedules are sampled per seed, not enumerated exhaustively.",
        note="Trusted: the exempt-set computation over the generator's own tree; observation through abs(Path(copy)) of every rendered shape plus text/title/desc content; the fault grammar contains only syntactically malformed values (zero/negative sizes are legal and are not injected); step budget 20x the pinned tree's maximum.")
CLAIMED["C20"] = dict(
        level="fault_enumeration", ref="DESIGN.md 5.6",
        technique="deterministic simulation with fault injection on a simulated disk: write -> crash-after-ack freeze -> read-back histories over three generations, short raw reads/writes, injected ENOSPC/EIO at enumerated raw writes and on close, seeded document and tree generation",
        text="Sources are parsed documents (reify on/off, ppi 96/72) and built trees (rendered or left with unit/percentage sizes), optionally edited through their objects before writing (ids set/cleared, paint, stroke width, *=, reify, a coordinate, the svg's size and viewBox, appended shapes: what is written must follow the objects, not the source text). Three-generation write/read histories over a simulated disk on which only what the raw file accepted is durable: string_xml and write_xml to plain, svgz, path-like names and caller-owned text/binary files; the image is frozen the instant the call returns (no GC, nothing flushed on the library's behalf); raw writes/reads are short; OSError is injected at a raw write chosen among those of the fault-free run, or on close. Oracles: the acknowledged image is a complete gzip stream/well-formed XML, no silent loss under I/O errors, shapes/paint/ids/rendered stroke width equal within the six-decimal matrix precision, fixed point from generation 1, writing leaves the tree unchanged and repeats itself, and the text equals what a pristine instance of the library writes for the same source. Arcs are compared by what they draw (centre, interior points, sweep). One known finding (arc radii pass through d() with six significant digits) is listed; it is attributed only where a 17-digit spelling reproduces the source arc. Sampled, not enumerated exhaustively.",
        note="Trusted: xml.etree as independent well-formedness check; tolerance 2e-6*(1+max local or absolute coordinate)*max(1, viewport scale); the element class and text elements are not compared; gzip reads go through the real BufferedReader over the short-reading raw file.")
BUILDING = {}

NA = {
 "C01": "pure function string -> segment list; no schedule, fault, crash point or history for a simulator to act on (needs a reference interpreter on generated inputs = property-based/differential testing). DESIGN.md 6.",
 "C02": "pure algebraic identity over values (X*M).point(t) = M(X.point(t)); no state, I/O, fault or history. DESIGN.md 6.",
 "C03": "specification conformance of (document text, configuration) -> geometry; the parser drains the stream before interpreting anything, so nothing depends on delivery, faults or ordering; needs an independent SVG transform-cascade reference. DESIGN.md 6.",
 "C04": "pure function transform string / 6-tuple -> matrix; algebraic laws over values only. DESIGN.md 6.",
 "C05": "pure function of seven arc parameters against the SVG F.6 formulas. DESIGN.md 6.",
 "C06": "pure function of shape parameters and a matrix against the SVG 2 equivalent path. DESIGN.md 6.",
 "C07": "in-memory string round trip d() -> parse with no storage, channel or fault between writer and reader; pure function of the path value and two flags. DESIGN.md 6.",
 "C08": "pure function object -> four numbers against sampled/analytic extrema. DESIGN.md 6.",
 "C11": "pure function of nine viewport parameters against the SVG 2 8.2 algorithm. DESIGN.md 6.",
 "C12": "pure value arithmetic over (amount, unit) pairs against exact rationals. DESIGN.md 6.",
 "C13": "pure table lookup and bit-field arithmetic against the CSS colour table. DESIGN.md 6.",
 "C14": "conformance of (document text) -> paint against the CSS cascade; no schedule, fault or history enters the statement; needs an independent cascade evaluator. DESIGN.md 6.",
 "C15": "pure numerical accuracy of length()/point(t) per curve and error setting; scipy presence is a build configuration, not a fault a run can meet. DESIGN.md 6.",
 "C19": "pure function arc -> Bezier chain against the ellipse equation. DESIGN.md 6.",
}

def main():
    checks = []
    for pid in sorted(CLAIMED):
        c = CLAIMED[pid]
        checks.append({
            "property_id": pid,
            "quick_cmd": "./check %s --tier quick" % pid,
            "thorough_cmd": "./check %s --tier thorough" % pid,
            "evidence_file": "/verif/evidence/%s.json" % pid,
            "replay_cmd_template": "./check %s --replay {path}" % pid,
            "engine": "detsim",
            "level_claimed": {"category": c["level"], "text": c["text"], "design_ref": c["ref"]},
            "level_note": c["note"],
            "technique": c["technique"],
        })
    na = [{"property_id": k, "reason": v} for k, v in sorted({**NA, **BUILDING}.items())]
    m = {
        "version": 1,
        "setup_cmd": "/venv/bin/python -B -c \"import sys; sys.path.insert(0, '/repo'); import svgelements.svgelements as s; print('svgelements ok', s.__file__)\"",
        "hooks": {
            "guard": "MEERK40T_SVGELEMENTS_VERIF",
            "enable": "unused: every seam the simulator needs already exists at the Python level (stream argument of SVG.parse, builtins.open for names under /simfs/, public API calls); no hook code was added to /repo",
            "baseline_off_cmd": "cd /repo && /venv/bin/python -m pytest -q -p no:cacheprovider --timeout=900",
            "source_commits": [],
            "add_only": True,
        },
        "engines": [{
            "name": "detsim", "path": "/verif/sim",
            "serves_properties": sorted(CLAIMED),
            "kind_free_text": "deterministic simulation with fault injection: one PRNG per run derived from VERIF_SEED decides workload, schedule of handles/operations, delivery schedule and faults; simulated disk and stream (sim/simfs.py); reference models as oracles; greedy minimisation; replay files",
        }],
        "checks": checks,
        "not_applicable": na,
        "notes": "All checks: exit 0 = held (KNOWN-FINDING lines allowed), exit 1 = VIOLATION line(s) with a minimised replay confirmed in a fresh interpreter, exit 2 = the machinery itself failed. VERIF_SEED selects the batch; VERIF_WORKERS the process count (results do not depend on it). ./check selftest-determinism and ./check selftest-mutants prove the simulator (DESIGN.md 2.8).",
    }
    with open(os.path.join(HERE, "MANIFEST.json"), "w") as f:
        json.dump(m, f, indent=1)
        f.write("\n")

if __name__ == "__main__":
    main()
