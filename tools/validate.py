#!/usr/bin/env python3
"""python3-vt tools/validate.py : validate MANIFEST.json and evidence/*.json against the schemas."""
import json, glob, sys, os
import jsonschema
HERE = os.path.dirname(os.path.dirname(os.path.abspath(__file__)))
ok = True
m = json.load(open(os.path.join(HERE, "MANIFEST.json")))
jsonschema.validate(m, json.load(open("/root/.vp/MANIFEST.schema.json")))
ids = [json.loads(l)["id"] for l in open(os.path.join(HERE, "properties.jsonl"))]
claimed = [c["property_id"] for c in m["checks"]]
na = [n["property_id"] for n in m.get("not_applicable", [])]
assert sorted(claimed + na) == sorted(ids), (sorted(claimed + na), ids)
print("manifest ok: claimed", claimed)
es = json.load(open("/root/.vp/EVIDENCE.schema.json"))
for f in sorted(glob.glob(os.path.join(HERE, "evidence", "*.json"))):
    jsonschema.validate(json.load(open(f)), es)
    print("evidence ok:", f)
