#!/venv/bin/python -B
"""usage: reach.py PROP [runs] : which lines of svgelements.py does PROP's workload reach? (self-audit of the
workload: an anchored branch that is never reached means the generator or fault mix must change)"""
import sys, os
sys.path.insert(0, os.path.dirname(os.path.dirname(os.path.abspath(__file__))))
import coverage
from sim import core
prop = sys.argv[1]; runs = int(sys.argv[2]) if len(sys.argv) > 2 else 1500
cov = coverage.Coverage(include=[core.SE_FILE], data_file=None)
cov.start()
se = core.load_se()
mod = core._import_check(prop)
for i in range(runs):
    case = mod.generate(core.run_seed(0, prop, i), i, "quick")
    core.run_case(mod, case)
cov.stop()
_, stmts, _, missing, _ = cov.analysis2(core.SE_FILE)
missing = set(missing)
src = open(core.SE_FILE).read().split("\n")
# function ranges
import ast
tree = ast.parse(open(core.SE_FILE).read())
wanted = sys.argv[3].split(",") if len(sys.argv) > 3 else None
rows = []
for node in ast.walk(tree):
    if isinstance(node, ast.ClassDef):
        for f in node.body:
            if isinstance(f, (ast.FunctionDef,)):
                rows.append(("%s.%s" % (node.name, f.name), f.lineno, f.end_lineno))
for node in tree.body:
    if isinstance(node, ast.FunctionDef):
        rows.append((node.name, node.lineno, node.end_lineno))
for name, lo, hi in rows:
    if wanted and not any(w in name for w in wanted):
        continue
    st = [l for l in stmts if lo <= l <= hi]
    ms = [l for l in st if l in missing]
    if st and len(ms) < len(st) and ms and (wanted or len(st) > 8):
        print("%-40s %3d/%3d reached; missing: %s" % (name, len(st) - len(ms), len(st), _ranges(ms) if False else ms[:40]))
