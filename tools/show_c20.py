#!/venv/bin/python -B
import json, sys, os, io
sys.path.insert(0, os.path.dirname(os.path.dirname(os.path.abspath(__file__))))
from sim import core, gen_doc as gd
from checks import c20
se = core.load_se()
b = json.load(open(sys.argv[1])); c = b["case"]
print("VIOLATION:", b["violation"]["oracle"], b["violation"]["sig"]); print("  ", b["violation"]["detail"][:400])
print("gens:", [(g["write"], g["read"]) for g in c["gens"]], "fault", c["fault"])
if c["source"] == "doc":
    xml = gd.serialise(c["doc"], indent=True); print(xml); print("reify", c["reify"], "ppi", c["ppi"])
    svg = se.SVG.parse(io.StringIO(xml), reify=c["reify"], ppi=c["ppi"])
else:
    print(json.dumps(c["tree"])); svg = c20.build_tree(se, c["tree"])
print("--- written:"); print(svg.string_xml())
