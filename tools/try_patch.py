#!/venv/bin/python -B
"""usage: try_patch.py PROP file.diff [runs] : apply a diff to a scratch copy of /repo's sources (outside /repo and
/verif), run PROP's check against it, remove the copy. Exit code = the check's."""
import sys, os, subprocess, shutil
sys.path.insert(0, os.path.dirname(os.path.dirname(os.path.abspath(__file__))))
from sim import selftest
prop, diff = sys.argv[1], sys.argv[2]
runs = sys.argv[3] if len(sys.argv) > 3 else None
d = selftest.make_scratch_copy()
try:
    r = subprocess.run(["patch", "-p1", "-d", d, "-i", diff], capture_output=True, text=True)
    if r.returncode != 0:
        print("PATCH FAILED", r.stdout, r.stderr); sys.exit(3)
    os.makedirs("/var/tmp/seeded-replays", exist_ok=True)
    env = dict(os.environ, VERIF_REPO=d, VERIF_REPLAY_DIR="/var/tmp/seeded-replays")
    cmd = ["/verif/check", prop, "--noevidence", "1"] + (["--runs", runs] if runs else [])
    p = subprocess.run(cmd, env=env, capture_output=True, text=True)
    out = "\n".join(l[:400] for l in p.stdout.splitlines() if not l.startswith("KNOWN"))
    print(out[-2500:]); print(p.stderr[-300:]); print("check exit", p.returncode)
    sys.exit(p.returncode)
finally:
    shutil.rmtree(d, ignore_errors=True)
