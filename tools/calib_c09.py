#!/venv/bin/python -B
# calibration of C09's linear step budget: max steps per character over the generated corpus and adversarial runs
import sys, os
sys.path.insert(0, '/verif')
from sim import core
from checks import c09
se = core.load_se()
rows = []
for i in range(int(sys.argv[1])):
    case = c09.generate(core.run_seed(0, "C09", i), i, "thorough")
    s = case["s"]
    p = se.Path()
    core.STEPS.start(None)
    try: p.parse(s)
    except Exception: pass
    st = core.STEPS.stop()
    rows.append((st, len(s), s[:60]))
for A, C in [(35, 250), (30,400), (25, 500), (40,200)]:
    r = max((st / (A * n + C), n, s) for st, n, s in rows)
    print(A, C, "max ratio %.3f" % r[0], r[1:])
print(max((st/max(n,1), st, n, s) for st,n,s in rows))
# adversarial
for s in ["M0,0"+"L1,1z"*5000, "M0,0"+"z"*10000, "z"+"L1,1z"*5000, "M0,0"+" 1,1"*5000+"z"*50, "M0,0 "+"T1,1"*4000, "M0,0"+"a1,1 0 0 0 1,1z"*3000]:
    p=se.Path(); core.STEPS.start(None)
    try: p.parse(s)
    except Exception as e: print('exc',e)
    st=core.STEPS.stop(); print(len(s), st, st/len(s))
