#!/venv/bin/python -B
import sys, os
sys.path.insert(0, os.path.dirname(os.path.dirname(os.path.abspath(__file__))))
from sim import core
from checks import c09
se = core.load_se()
mx = 0; rows = []
for i in range(int(sys.argv[1])):
    case = c09.generate(core.run_seed(0, "C09", i), i, "thorough")
    s = case["s"]
    p = se.Path()
    core.STEPS.start(None)
    try: p.parse(s)
    except Exception: pass
    st = core.STEPS.stop()
    q = c09.quad_term(s)
    rows.append((st, len(s), q))
import itertools
for A, B, C in [(35, 10, 250), (20, 6, 200), (15, 8, 150), (12, 4, 100)]:
    r = max(st / (A * n + B * q + C) for st, n, q in rows)
    print(A, B, C, "max ratio %.3f" % r)
print("max steps/len", max(st / max(n, 1) for st, n, q in rows), "max steps", max(rows))
