#!/bin/sh
# Confirms every seeded change in its scratch worktree: patch applies, suite gives 404 passed, demo exits 0 clean / 1 changed.
for p in c09 c10 c16 c17 c18 c20; do
  W=/tmp/${SEEDPFX:-seed}-$p; git -C $W checkout -q --detach main
  for i in ${SEEDIDX:-1 2 3}; do
    git -C $W checkout -q -- svgelements
    /venv/bin/python -B $W/_out/demo$i.py $W >/dev/null 2>&1; clean=$?
    git -C $W apply $W/_out/change$i.diff || { echo "$p $i PATCH-FAIL"; continue; }
    /venv/bin/python -B $W/_out/demo$i.py $W >/dev/null 2>&1; changed=$?
    suite=$(cd $W && PYTHONPATH=$W /venv/bin/python -m pytest -q -p no:cacheprovider --timeout=900 -n 4 2>&1 | tail -1)
    imp=$(cd $W && PYTHONPATH=$W /venv/bin/python -c "import svgelements; print(svgelements.__file__)")
    echo "$p $i demo_clean=$clean demo_changed=$changed import=$imp suite=[$suite]"
    git -C $W checkout -q -- svgelements
  done
done
