#!/usr/bin/env python3
"""Rewrites the table of independently seeded changes in DESIGN.md (between the seeded-table markers)
from seeded/*/meta.json."""
import glob, json, os
HERE = os.path.dirname(os.path.dirname(os.path.abspath(__file__)))
rows = []
for f in sorted(glob.glob(os.path.join(HERE, "seeded", "*", "meta.json"))):
    m = json.load(open(f))
    rows.append(m)
out = ["<!-- seeded-table:begin -->",
       "| id | property | the change | what it needs to manifest | caught by (first oracle; violating runs in the quick tier) | history |",
       "|---|---|---|---|---|---|"]
for m in rows:
    caught = "%s; %s of %s runs" % (m.get("first_oracle"), m.get("violating_runs"), m.get("runs")) if m.get("caught") else "**not caught** (see history)"
    out.append("| %s | %s | %s | %s | %s | %s |" % (m["id"], m["property"], m["what"].replace("|", "/"), m["needs_to_manifest"].replace("|", "/"), caught, m["history"].replace("|", "/")))
n_caught = sum(1 for m in rows if m.get("caught"))
out.append("")
out.append("%d of %d seeded changes are caught by the registered quick checks (each confirmed: patch applies to /repo's main, pytest still gives 404 passed, demo exits 0 without and 1 with the change)." % (n_caught, len(rows)))
out.append("<!-- seeded-table:end -->")
p = os.path.join(HERE, "DESIGN.md")
s = open(p).read()
b, e = "<!-- seeded-table:begin -->", "<!-- seeded-table:end -->"
if b in s:
    s = s[: s.index(b)] + "\n".join(out) + s[s.index(e) + len(e):]
else:
    s = s.rstrip("\n") + "\n\n" + "\n".join(out) + "\n"
open(p, "w").write(s)
print("rows", len(rows), "caught", n_caught)
