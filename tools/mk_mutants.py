#!/venv/bin/python -B
"""Defines the sensitivity mutants and writes mutants/mutants.json after checking that every
pattern occurs exactly once in the current /repo tree."""
import json, os, sys
HERE = os.path.dirname(os.path.dirname(os.path.abspath(__file__)))
SRC = open("/repo/svgelements/svgelements.py").read()
M = []
def mut(id, prop, desc, old, new, runs=None, more=()):
    n = SRC.count(old)
    if n != 1:
        print("PATTERN PROBLEM", id, n); sys.exit(1)
    d = {"id": id, "property": prop, "description": desc, "old": old, "new": new}
    if runs: d["runs"] = runs
    if more:
        # further cooperating sites of the same change
        d["more"] = []
        for o2, n2 in more:
            if SRC.count(o2) != 1:
                print("PATTERN PROBLEM (more)", id, SRC.count(o2)); sys.exit(1)
            d["more"].append({"old": o2, "new": n2})
    M.append(d)

# ---------------- C09
mut("c09-q-missing-operand-check", "C09", "drop the operand check of the second coordinate pair in the absolute Q branch",
'''                    coord1, coord2 = self._coord(), self._coord()
                    if coord1 is None:
                        coord1 = self.inline_close
                        if coord1 is None:
                            raise ValueError
                    if coord2 is None:
                        coord2 = self.inline_close
                        if coord2 is None:
                            raise ValueError
                    self.parser.quad(coord1, coord2, relative=False)''',
'''                    coord1, coord2 = self._coord(), self._coord()
                    if coord1 is None:
                        coord1 = self.inline_close
                        if coord1 is None:
                            raise ValueError
                    if coord2 is None:
                        coord2 = self.inline_close
                    self.parser.quad(coord1, coord2, relative=False)''')
mut("c09-coord-odd-count", "C09", "_coord returns (x, None) instead of raising on an odd number count",
'''        y = self._number()
        if y is None:
            raise ValueError
        return x, y''',
'''        y = self._number()
        return x, y''')
mut("c09-command-loops", "C09", "_command spins on an unknown character instead of stopping",
'''            match = svg_re.match(self.pathd, self.pos)
            if match is None:
                return None  # Did not match at command sequence.''',
'''            match = svg_re.match(self.pathd, self.pos)
            if match is None:
                continue  # Did not match at command sequence.''', runs=400)
mut("c09-arc-operand-checks", "C09", "drop the missing-number and flag checks of the absolute arc branch (the pinned tree's defect)",
'''                        self._coord(),
                    )
                    if rx is None or ry is None or rotation is None:
                        raise ValueError
                    if arc is None or sweep is None:
                        raise ValueError''',
'''                        self._coord(),
                    )''')
mut("c09-h-operand", "C09", "horizontal command no longer notices a missing number (the pinned tree's defect)",
'''            elif cmd == "H":
                while True:
                    value = self._number()
                    if value is None:
                        raise ValueError''',
'''            elif cmd == "H":
                while True:
                    value = self._number()''')
mut("c09-parse-swallows-error", "C09", "Path.parse catches the lexer's ValueError and keeps going is simulated by discarding segments: parse() clears what was built on error",
'''        tokens = SVGLexicalParser()
        tokens.parse(self, pathdef)''',
'''        tokens = SVGLexicalParser()
        try:
            tokens.parse(self, pathdef)
        except ValueError:
            del self._segments[max(0, len(self._segments) - 1):]
            raise''')
mut("c09-close-before-check", "C09", "a close followed by a number is rejected before it is recorded (the pinned tree's defect)",
'''                self.parser.closed(relative=cmd.islower())
                if self._more():
                    raise ValueError''',
'''                if self._more():
                    raise ValueError
                self.parser.closed(relative=cmd.islower())''')
mut("c09-smooth-no-current-point", "C09", "smooth quadratic no longer requires a current point",
'''            if start_pos is None:
                raise ValueError("smooth curve requires a current point")
            control1 = self.smooth_point
            end_pos = points[index]''',
'''            control1 = self.smooth_point
            end_pos = points[index]''')
mut("c09-close-walks-to-move", "C09", "every close walks back to the last move over the earlier closes of the same move: parsing is quadratic in them (the pinned tree's defect)",
'''        for segment in reversed(self._segments):
            if isinstance(segment, Move) or (
                isinstance(segment, Close) and segment.end is not None
            ):
                # An earlier close of the same move ended where the next one must: no need to walk on.
                end_pos = segment.end
                break''',
'''        for segment in reversed(self._segments):
            if isinstance(segment, Move):
                end_pos = segment.end
                break''', runs=60000, more=[('''            if isinstance(segment, Move) or (
                isinstance(segment, Close) and segment.end is not None
            ):
                # An earlier close of the same move ended where this one must: no need to walk on.
                self._segments[index].end = Point(segment.end)
                return''', '''            if isinstance(segment, Move):
                self._segments[index].end = Point(segment.end)
                return''')])
mut("c09-arc-subnormal-squares-divide", "C09", "the arc centre computation divides by squares that underflow (ZeroDivisionError out of the parser; the pinned tree's defect)",
'''        except (ZeroDivisionError, OverflowError):
            c = float("nan")''',
'''        except OverflowError:
            c = float("nan")''')
mut("c09-arc-nan-centre-kept", "C09", "an arc whose centre computation is not finite is kept with NaN centre, radii and sweep (the pinned tree's defect)",
'''        if c != c or c == float("inf"):''',
'''        if False:''')

# ---------------- C16
mut("c16-arc-sweep-not-negated", "C16", "Arc.reverse swaps the end points but keeps the sweep",
'''        PathSegment.reverse(self)
        self.sweep = -self.sweep''',
'''        PathSegment.reverse(self)''')
mut("c16-subpath-end-off-by-one", "C16", "Subpath.reverse includes the close in the reversed range",
'''        if isinstance(self[-1], Close):
            end -= 1
        if isinstance(
            self[0], Move
        ):  # Move remains in place but references next element.''',
'''        if isinstance(self[-1], Close) and size > 3:
            end -= 1
        if isinstance(
            self[0], Move
        ):  # Move remains in place but references next element.''')
mut("c16-no-prefer-second", "C16", "the move before a reversed range is not re-linked from the right",
'''            self._path._validate_connection(start - 1, prefer_second=True)
        self._path._validate_connection(end)''',
'''            self._path._validate_connection(start - 1)
        self._path._validate_connection(end)''')
mut("c16-fragment-start-lost", "C16", "Path.reverse clears the start of any leading segment (the pinned tree's defect)",
'''        if isinstance(self._segments[0], Move):
            # Only a move's start is a mere back link, any other segment starts the geometry there.
            prepoint = self._segments[0].start
            self._segments[0].start = None''',
'''        if True:
            prepoint = self._segments[0].start
            self._segments[0].start = None''')
mut("c16-moveless-not-reanchored", "C16", "whole-path reverse no longer gives a move-less subpath its own move",
'''                if len(p) != 0 or isinstance(subpath[-1], Close) or complete:
                    p.append(Move(end=subpath[0].start))''',
'''                if False:
                    p.append(Move(end=subpath[0].start))''')

mut("c16-leading-move-dropped", "C16", "a complete path whose last subpath has no move of its own reverses to a path without a leading move (the pinned tree's defect)",
'''                if len(p) != 0 or isinstance(subpath[-1], Close) or complete:''',
'''                if len(p) != 0 or isinstance(subpath[-1], Close):''')
mut("c16-length-cache-kept", "C16", "a reversal through a subpath view keeps the backing path's cached per-segment lengths (the pinned tree's defect)",
'''        # The cached lengths of the backing path are in the old order.
        self._path._length = None
        self._path._lengths = None''',
'''        # The cached lengths of the backing path are in the old order.''')
# ---------------- C17
mut("c17-quad-copy-control", "C17", "copying a quadratic curve puts the end point where the control belongs (p + 'T..' then reflects the wrong point)",
'''        return QuadraticBezier(
            self.start,
            self.control,
            self.end,
            relative=self.relative,
            smooth=self.smooth,
        )''',
'''        return QuadraticBezier(
            self.start,
            self.end,
            self.end,
            relative=self.relative,
            smooth=self.smooth,
        )''')
mut("c17-iadd-fresh-parse", "C17", "+= parses the appended data as a fresh path and extends (loses the relative context)",
'''        if isinstance(other, str):
            self.parse(other)
        elif isinstance(other, (Path, Subpath)):
            self.extend(map(copy, list(other)))''',
'''        if isinstance(other, str):
            self.extend(Path(other))
        elif isinstance(other, (Path, Subpath)):
            self.extend(map(copy, list(other)))''')
mut("c17-add-without-copy", "C17", "+ works on the left operand itself instead of a copy",
'''        if isinstance(other, (str, Path, Subpath, Shape, PathSegment)):
            n = copy(self)
            if isinstance(other, PathSegment):
                other = copy(other)  # Linking it into the new path must not rewrite the operand.
            n += other
            return n
        return NotImplemented

    def __radd__(self, other):''',
'''        if isinstance(other, (str, Path, Subpath, Shape, PathSegment)):
            n = self
            if isinstance(other, PathSegment):
                other = copy(other)  # Linking it into the new path must not rewrite the operand.
            n += other
            return n
        return NotImplemented

    def __radd__(self, other):''')
mut("c17-segment-add-str-standalone", "C17", "segment + data parses the data on its own and puts the segment in front (relative commands lose their origin)",
'''        elif isinstance(other, str):
            path = Path(self) + other
            return path
        return NotImplemented''',
'''        elif isinstance(other, str):
            path = Path(other)
            path.insert(0, self)
            return path
        return NotImplemented''')
mut("c17-iadd-path-shares", "C17", "path += path links the right operand's own segments",
'''        elif isinstance(other, (Path, Subpath)):
            self.extend(map(copy, list(other)))
        elif isinstance(other, Shape):
            self.parse(other.d())''',
'''        elif isinstance(other, (Path, Subpath)):
            self.extend(list(other))
        elif isinstance(other, Shape):
            self.parse(other.d())''')
mut("c17-add-shape-untransformed", "C17", "path + shape appends the shape's untransformed outline",
'''        elif isinstance(other, Shape):
            self.parse(other.d())
        elif isinstance(other, PathSegment):
            self.append(other)''',
'''        elif isinstance(other, Shape):
            self.parse(other.d(transformed=False))
        elif isinstance(other, PathSegment):
            self.append(other)''')

mut("c17-append-keeps-length-cache", "C17", "appending a segment no longer drops the cached length (a length measured between two appends survives)",
'''        self._length = None
        index = len(self._segments) - 1
        self._segments.append(value)''',
'''        index = len(self._segments) - 1
        self._segments.append(value)''')

# ---------------- C18
mut("c18-path-init-shares-segments", "C18", "Path(x) takes the source's segment objects (the pinned tree's defect)",
'''            elif isinstance(s, Shape):
                self._segments.extend(map(copy, s.segments(transformed=False)))''',
'''            elif isinstance(s, Shape):
                self._segments.extend(s.segments(transformed=False))''')
mut("c18-transform-shared", "C18", "copies share the transform matrix object",
'''    def property_by_object(self, s):
        self.transform = Matrix(s.transform)
        self.apply = s.apply''',
'''    def property_by_object(self, s):
        self.transform = s.transform
        self.apply = s.apply''')
mut("c18-fill-shared", "C18", "copies share the fill colour object",
'''        self.fill = Color(s.fill) if s.fill is not None else None
        self.stroke = Color(s.stroke) if s.stroke is not None else None''',
'''        self.fill = s.fill
        self.stroke = Color(s.stroke) if s.stroke is not None else None''')
mut("c18-values-shared", "C18", "copies share the values dictionary",
'''    def property_by_object(self, obj):
        self.id = obj.id
        self.values = dict(obj.values)''',
'''    def property_by_object(self, obj):
        self.id = obj.id
        self.values = obj.values''')
mut("c18-polyshape-points-shared", "C18", "polyline/polygon copies keep the source's point list",
'''    def property_by_object(self, s):
        Shape.property_by_object(self, s)
        self._init_points(s.points)''',
'''    def property_by_object(self, s):
        Shape.property_by_object(self, s)
        self.points = s.points''')
mut("c18-polyshape-point-objects-shared", "C18", "polyline/polygon copies re-wrap the list but share the Point objects",
'''                elif isinstance(first_point, (list, tuple, complex, str, Point)):
                    self.points = list(map(Point, points))''',
'''                elif isinstance(first_point, (list, tuple, complex, str, Point)):
                    self.points = list(points)''')
mut("c18-group-children-shared", "C18", "a group copy holds the very children of its source",
'''            if isinstance(s, Group):
                self.extend(list(map(copy, s)))''',
'''            if isinstance(s, Group):
                self.extend(list(s))''')
mut("c18-matrix-invert-inplace", "C18", "~M inverts the operand in place",
'''    def __invert__(self):
        m = self.__copy__()
        return m.inverse()''',
'''    def __invert__(self):
        m = self
        return m.inverse()''')
mut("c18-line-copy-shares-points", "C18", "Line/Close constructor keeps the Point objects it is given (copy shares end points)",
'''    def __init__(self, start=None, end=None, **kwargs):
        PathSegment.__init__(self, **kwargs)
        self.start = Point(start) if start is not None else None
        self.end = Point(end) if end is not None else None

    def __copy__(self):
        return self.__class__(self.start, self.end, relative=self.relative)''',
'''    def __init__(self, start=None, end=None, **kwargs):
        PathSegment.__init__(self, **kwargs)
        self.start = start
        self.end = end

    def __copy__(self):
        return self.__class__(self.start, self.end, relative=self.relative)''')
mut("c18-mul-in-place", "C18", "x * M transforms x itself",
'''    def __mul__(self, other):
        if isinstance(other, (Matrix, str)):
            n = copy(self)
            n *= other
            return n
        return NotImplemented

    __rmul__ = __mul__

    def __imul__(self, other):
        if isinstance(other, str):
            other = Matrix(other)
        if isinstance(other, Matrix):
            self.transform *= other
        return self''',
'''    def __mul__(self, other):
        if isinstance(other, (Matrix, str)):
            n = self
            n *= other
            return n
        return NotImplemented

    __rmul__ = __mul__

    def __imul__(self, other):
        if isinstance(other, str):
            other = Matrix(other)
        if isinstance(other, Matrix):
            self.transform *= other
        return self''')
mut("c18-path-add-links-operand", "C18", "path + segment links the operand itself (the pinned tree's defect)",
'''        if isinstance(other, (str, Path, Subpath, Shape, PathSegment)):
            n = copy(self)
            if isinstance(other, PathSegment):
                other = copy(other)  # Linking it into the new path must not rewrite the operand.
            n += other
            return n
        return NotImplemented

    def __radd__(self, other):''',
'''        if isinstance(other, (str, Path, Subpath, Shape, PathSegment)):
            n = copy(self)
            n += other
            return n
        return NotImplemented

    def __radd__(self, other):''')
mut("c18-matrix-shares-length", "C18", "a matrix copy keeps the source's Length objects of an unrendered translation (the pinned tree's defect)",
'''        if isinstance(self.e, Length):
            self.e = copy(self.e)''',
'''        if isinstance(self.e, Length) and False:
            self.e = copy(self.e)''')

# ---------------- C10
mut("c10-only-valueerror-guarded", "C10", "element construction is guarded for ValueError only (a bad transform raises IndexError out of parse)",
'''                except (
                    ValueError,
                    IndexError,
                    TypeError,
                    OverflowError,
                    ZeroDivisionError,
                ) as e:
                    # The attributes of this element are in error, it is not rendered.
                    if on_error == "raise":
                        raise e
                    elif on_error == "stop":
                        return root
                    if root is None''',
'''                except (
                    ValueError,
                    OverflowError,
                    ZeroDivisionError,
                ) as e:
                    # The attributes of this element are in error, it is not rendered.
                    if on_error == "raise":
                        raise e
                    elif on_error == "stop":
                        return root
                    if root is None''')
mut("c10-failed-shape-returns", "C10", "a shape that cannot be built ends the parse (return root) instead of being skipped",
'''                            if s is None:
                                # s was not established we continue without it.
                                continue''',
'''                            if s is None:
                                # s was not established we continue without it.
                                return root''')
mut("c10-double-pop", "C10", "a skipped element pops the inheritance stack at once and again at its end event (later siblings inherit from the wrong ancestor)",
'''                        return SVG()
                    continue
                # If no root was established, s is root.''',
'''                        return SVG()
                    if len(stack) > 2:
                        values = stack[-2][1]
                        stack[-1] = stack[-2]
                    continue
                # If no root was established, s is root.''')
mut("c10-undisplayed-root-leaves-no-tree", "C10", "an outermost svg with display none is skipped like any element and None is returned (the pinned tree's defect)",
'''                    if root is None and SVG_NAME_TAG == tag:
                        # The outermost svg itself: nothing of the document is rendered, it is still a document.
                        return SVG()
                    continue  # If the attributes flag our values to display=none, stop rendering.''',
'''                    continue  # If the attributes flag our values to display=none, stop rendering.''', runs=20000)
mut("c10-failed-root-leaves-no-tree", "C10", "an outermost svg that cannot be processed is skipped like any element: None or the first child is returned (the pinned tree's defect)",
'''                        return root
                    if root is None and SVG_NAME_TAG == tag:
                        # The outermost svg itself: nothing of the document is rendered, it is still a document.
                        return SVG()''',
'''                        return root
                    if False:
                        return SVG()''', runs=80000)
mut("c10-dangling-use-raises", "C10", "a use whose target does not exist is no longer tolerated",
'''                        target = event_defs.get(url[1:])  # None: failed to find link.''',
'''                        target = event_defs[url[1:]]''')
mut("c10-structure-pass-skips-end-of-reference", "C10", "after giving a use's reference the structure pass forgets the use's own end event",
'''                frames.pop()
                if elem is not None:
                    yield tag, "end", elem''',
'''                frames.pop()
                if elem is not None and not (SVG_TAG_USE == tag and frame[1] != frame[4] and SVG_ATTR_ID not in elem.attrib):
                    yield tag, "end", elem''')
mut("c10-single-read", "C10", "the structure pass assumes that one read() returns the whole document",
'''        for event, elem in iterparse(source, events=("start", "end", "start-ns")):''',
'''        if hasattr(source, "read") and not hasattr(source, "getvalue"):
            from io import BytesIO, StringIO

            first = source.read(1 << 16)
            source = BytesIO(first) if isinstance(first, bytes) else StringIO(first)
        for event, elem in iterparse(source, events=("start", "end", "start-ns")):''')
mut("c10-percent-base-leaks", "C10", "the percentage base set by an embedded svg is not restored at its end (the pinned tree's defect)",
'''                context, values, width, height = stack.pop()
            elif event == "start-ns":''',
'''                context, values, _w, _h = stack.pop()
            elif event == "start-ns":''')
mut("c10-cyclic-use-unbounded", "C10", "use expansion no longer stops at a reference that is being instantiated (the pinned tree's defect)",
'''                    if url is not None and url[1:] not in active:''',
'''                    if url is not None:''')
mut("c10-ids-registered-with-any-root", "C10", "ids of uses are registered with whatever the root is (AttributeError when the outermost element is a group; the pinned tree's defect)",
'''                        if SVG_ATTR_ID in attributes and isinstance(root, SVG) and use == 1:''',
'''                        if SVG_ATTR_ID in attributes and root is not None and use == 1:''', runs=20000)
mut("c10-image-attribute-taken-for-object", "C10", "an attribute named image is taken for an image object (the pinned tree's defect)",
'''        if "image" in values and not isinstance(values["image"], str):''',
'''        if "image" in values:''', runs=40000)
mut("c10-clip-path-first-match-indexed", "C10", "get_element_by_url indexes the first IRI match (IndexError for clip-path='none')",
'''        for _id in REGEX_IRI.findall(url):
            return self.get_element_by_id(_id)''',
'''        return self.get_element_by_id(REGEX_IRI.findall(url)[0])''')
mut("c10-embedded-zero-svg-returns", "C10", "an embedded svg with a zero-size viewBox ends the parse and is returned as the document (the pinned tree's defect)",
'''                                if root is None:
                                    return s  # No more parsing will be done.''',
'''                                if True:
                                    return s  # No more parsing will be done.''')
mut("c10-text-unguarded", "C10", "text elements are built at the end event without the guard",
'''                        # The attributes of this element are in error, it is not rendered.
                        s = None
                        if on_error == "raise":
                            raise e
                        elif on_error == "stop":
                            return root
                    if s is not None and context is not None:''',
'''                        # The attributes of this element are in error, it is not rendered.
                        raise e
                    if s is not None and context is not None:''')
mut("c10-bad-fill-poisons-parent", "C10", "a colour that cannot be parsed is written back into the parent's inherited values",
'''                # All class and attribute properties are compiled.
                values.update(attributes)''',
'''                # All class and attribute properties are compiled.
                if attributes.get(SVG_ATTR_FILL, "").startswith("#") and len(attributes[SVG_ATTR_FILL]) not in (4, 5, 7, 9):
                    current_values[SVG_ATTR_FILL] = "none"
                values.update(attributes)''')

mut("c10-styles-kept-between-parses", "C10", "the style-sheet table became a default argument value (two sites): it is created once and survives from one parse to the next",
'''        parse_display_none=False,
        on_error="ignore",
    ):''',
'''        parse_display_none=False,
        on_error="ignore",
        styles={},
    ):''', more=[('''        root = context
        styles = {}
        stack = []''', '''        root = context
        stack = []''')])

mut("c18-text-font-size-shared", "C18", "copies of a Text share a font size that is still a Length (the pinned tree's defect)",
'''        self.font_size = _own(s.font_size)''',
'''        self.font_size = s.font_size''')
# ---------------- C20
mut("c20-viewport-inverse-wrong-side", "C20", "the inverse viewport transform is multiplied on the wrong side",
'''        if viewport_transform:
            t = t * viewport_transform''',
'''        if viewport_transform:
            t = viewport_transform * t''')
mut("c20-rect-ry-from-rx", "C20", "the writer states a rect's ry from rx",
'''        restate(xml_tree, SVG_ATTR_RADIUS_Y, node.ry)
        restate_size(xml_tree, SVG_ATTR_WIDTH, node.width)''',
'''        restate(xml_tree, SVG_ATTR_RADIUS_Y, node.rx)
        restate_size(xml_tree, SVG_ATTR_WIDTH, node.width)''')
mut("c20-arc-conjugate-radii-kept", "C20", "an arc multiplied by a non-similarity keeps the mapped radii, conjugate diameters that d() then spells as axes (the pinned tree's defect; the check used to file it under the six-digit finding)",
'''                self.sweep = -self.sweep
            self._principal_axes()
        return self''',
'''                self.sweep = -self.sweep
        return self''')
mut("c20-unrendered-root-not-resolved", "C20", "a built root whose size has units is written without undoing the viewport transform its reader assumes (the pinned tree's defect)",
'''                if not outermost:
                    raise''',
'''                if True:
                    raise''')
mut("c20-stale-id-kept", "C20", "an id cleared on the object leaves the source's id in the written text (the pinned tree's defect)",
'''            xml_tree.set(SVG_ATTR_ID, str(node.id))
        else:
            xml_tree.attrib.pop(SVG_ATTR_ID, None)''',
'''            xml_tree.set(SVG_ATTR_ID, str(node.id))''')
mut("c20-stale-viewbox-kept", "C20", "a viewBox cleared on the svg object is still written from the source text (the pinned tree's defect)",
'''        restate(xml_tree, SVG_ATTR_VIEWBOX, node.viewbox)''',
'''        if node.viewbox:
            xml_tree.set(SVG_ATTR_VIEWBOX, str(node.viewbox))''')
mut("c20-group-opacity-copied", "C20", "a group's fill-opacity is copied onto the written g and inherited by opaque children (the pinned tree's defect)",
'''                SVG_ATTR_FILL_OPACITY,
                SVG_ATTR_STROKE_OPACITY,
                SVG_TAG_STYLE,''',
'''                SVG_TAG_STYLE,''')
mut("c20-zero-radius-omitted", "C20", "a circle's radius of zero is left out and read back as the default radius (the pinned tree's defect)",
'''        restate_size(xml_tree, SVG_ATTR_RADIUS, node.rx)''',
'''        restate(xml_tree, SVG_ATTR_RADIUS, node.rx)''')
mut("c20-stroke-opacity-as-fill-opacity", "C20", "the stroke's alpha is written as fill-opacity",
'''                xml_tree.set(SVG_ATTR_STROKE_OPACITY, str(stroke_opacity))''',
'''                xml_tree.set(SVG_ATTR_FILL_OPACITY, str(stroke_opacity))''')
mut("c20-write-swallows-oserror", "C20", "write() swallows I/O errors of the final write (a truncated file is acknowledged)",
'''        pass
    tree.write(f, **kwargs)''',
'''        pass
    try:
        tree.write(f, **kwargs)
    except OSError:
        pass''')
mut("c20-matrix-five-decimals", "C20", "matrices are written with five decimals",
'''                "matrix(%f, %f, %f, %f, %f, %f)" % (t.a, t.b, t.c, t.d, t.e, t.f),''',
'''                "matrix(%.4f, %.4f, %.4f, %.4f, %.4f, %.4f)" % (t.a, t.b, t.c, t.d, t.e, t.f),''')
mut("c20-svgz-not-closed", "C20", "the gzip file opened for an svgz name is never closed (the pinned tree's defect)",
'''            with gzip.open(f, "wb") as gz:
                tree.write(gz, **kwargs)
            return''',
'''            gz = gzip.open(f, "wb")
            tree.write(gz, **kwargs)
            return''')
mut("c20-use-transform-written", "C20", "a use keeps its transform on the group it is written as (the pinned tree's defect)",
'''    if hasattr(node, "transform") and not isinstance(node, (Group, Use)):''',
'''    if hasattr(node, "transform") and not isinstance(node, Group):''')
mut("c20-stale-cy-kept", "C20", "a circle's cy at zero leaves the source's cy text in place (the pinned tree's defect)",
'''        xml_tree = subxml(xml_tree, SVG_TAG_CIRCLE)
        restate(xml_tree, SVG_ATTR_CENTER_X, node.cx)
        restate(xml_tree, SVG_ATTR_CENTER_Y, node.cy)''',
'''        xml_tree = subxml(xml_tree, SVG_TAG_CIRCLE)
        restate(xml_tree, SVG_ATTR_CENTER_X, node.cx)
        if node.cy:
            xml_tree.set(SVG_ATTR_CENTER_Y, str(node.cy))''')
mut("c20-point-str-exponent", "C20", "Point.__str__ strips the zeros of an exponent (the pinned tree's defect)",
'''        if "." in x_str and "E" not in x_str:''',
'''        if "." in x_str:''', runs=40000)
mut("c20-fill-none-omitted", "C20", "a fill of none is not written (the shape comes back black)",
'''            fill = (
                str(abs(fill))
                if fill is not None and fill.value is not None
                else SVG_VALUE_NONE
            )
            xml_tree.set(SVG_ATTR_FILL, str(fill))''',
'''            fill = (
                str(abs(fill))
                if fill is not None and fill.value is not None
                else SVG_VALUE_NONE
            )
            if fill != SVG_VALUE_NONE:
                xml_tree.set(SVG_ATTR_FILL, str(fill))''')
mut("c20-embedded-viewport-not-undone", "C20", "content of an embedded svg is written without undoing the enclosing viewport transform (the pinned tree's defect)",
'''            vt = viewport_transform * vt if vt else viewport_transform''',
'''            vt = vt if vt else None''')
mut("c20-xy-inherited", "C20", "children inherit an enclosing element's y (the pinned tree's defect)",
'''                for attr in (SVG_ATTR_X, SVG_ATTR_Y, SVG_ATTR_WIDTH, SVG_ATTR_HEIGHT):
                    if attr in values:''',
'''                for attr in (SVG_ATTR_X, SVG_ATTR_WIDTH, SVG_ATTR_HEIGHT):
                    if attr in values:''', runs=20000)

mut("c20-writer-mutates-transform", "C20", "the writer folds the inverse viewport transform into the node's own matrix (in place): the tree changes by being written",
'''        if viewport_transform:
            t = t * viewport_transform''',
'''        if viewport_transform:
            t *= viewport_transform''')

json.dump(M, open(os.path.join(HERE, "mutants", "mutants.json"), "w"), indent=1)
print("wrote", len(M), "mutants")
