"""
Proving the simulator itself (DESIGN.md 2.8).

determinism: every run index executed in fresh interpreters under different
  PYTHONHASHSEED values and worker counts must give identical per-chunk digests.
mutants: each entry of /verif/mutants/mutants.json (a realistic breakage, stored
  as an exact-once string replacement so that it survives line drift) is applied
  to a scratch copy of the repository outside /repo and /verif; the named check,
  pointed at the copy, must report a VIOLATION; the unmodified copy must not.
"""
import json
import os
import shutil
import subprocess
import sys
import tempfile

from sim import core

HERE = core.VERIF_DIR


def _run_digest(prop, runs, hashseed, workers, repo=None, seed=0):
    code = (
        "import sys, json; sys.path.insert(0, %r); sys.dont_write_bytecode=True\n"
        "from sim import core\n"
        "r = core.run_batch(%r, %d, %d, 'quick', workers=%d, chunk=50)\n"
        "print(json.dumps({'digest': r['digest'], 'chunks': r['chunk_digests'], 'nviol': r['nviol'], 'nharness': r['nharness'], 'harness': r['harness'][:2]}))\n"
    ) % (HERE, prop, seed, runs, workers)
    env = dict(os.environ)
    env["PYTHONHASHSEED"] = str(hashseed)
    if repo:
        env["VERIF_REPO"] = repo
    p = subprocess.run([sys.executable, "-B", "-c", code], capture_output=True, text=True, env=env, timeout=1800)
    if p.returncode != 0:
        raise RuntimeError("digest run failed: %s" % p.stderr[-2000:])
    return json.loads(p.stdout.strip().splitlines()[-1])


def determinism(props, runs, seeds=(0, 20261003)):
    rc = 0
    for prop, seed in [(p, s) for p in props for s in seeds]:
        configs = [(0, 16), (0, 1 if runs <= 300 else 3), (12345, 16), ("random", 7)]
        results = []
        for hs, w in configs:
            results.append(_run_digest(prop, runs, hs, w, seed=seed))
        base = results[0]
        ok = True
        for (hs, w), r in zip(configs[1:], results[1:]):
            if r["digest"] != base["digest"]:
                ok = False
                bad = [k for k in base["chunks"] if base["chunks"][k] != r["chunks"].get(k)]
                print("DETERMINISM-FAIL %s: PYTHONHASHSEED=%s workers=%d differs in chunks starting at %s" % (prop, hs, w, bad[:5]))
        if base["nharness"]:
            ok = False
            print("DETERMINISM-FAIL %s: harness errors %s" % (prop, base["harness"]))
        print("determinism %s VERIF_SEED=%d: %s (%d runs x %d configurations: PYTHONHASHSEED 0/0/12345/random, workers 16/%d/16/7, fresh interpreters; digest %s)" % (prop, seed, "ok" if ok else "FAILED", runs, len(configs), configs[1][1], base["digest"][:16]))
        if not ok:
            rc = 2
    return rc


def load_mutants():
    with open(os.path.join(HERE, "mutants", "mutants.json")) as f:
        return json.load(f)


def make_scratch_copy():
    base = os.environ.get("TMPDIR") or "/var/tmp"
    d = tempfile.mkdtemp(prefix="svgverif-", dir=base)
    os.makedirs(os.path.join(d, "svgelements"))
    for name in os.listdir(os.path.join(core.REPO, "svgelements")):
        if name.endswith(".py"):
            shutil.copy(os.path.join(core.REPO, "svgelements", name), os.path.join(d, "svgelements", name))
    return d


def apply_mutant(scratch, m):
    path = os.path.join(scratch, "svgelements", "svgelements.py")
    with open(path) as f:
        src = f.read()
    edits = [(m["old"], m["new"])] + [(e["old"], e["new"]) for e in m.get("more", [])]
    for old, new in edits:
        n = src.count(old)
        if n != 1:
            return False, "pattern occurs %d times" % n
        src = src.replace(old, new)
    with open(path, "w") as f:
        f.write(src)
    return True, ""


def _check(prop, scratch, runs, replay_dir):
    env = dict(os.environ)
    env["VERIF_REPO"] = scratch
    env["VERIF_REPLAY_DIR"] = replay_dir
    env["PYTHONHASHSEED"] = "0"
    cmd = [sys.executable, "-B", os.path.join(HERE, "check.py"), prop, "--runs", str(runs), "--noevidence", "1"]
    p = subprocess.run(cmd, capture_output=True, text=True, env=env, timeout=3000, cwd=HERE)
    return p.returncode, p.stdout, p.stderr


def mutants(props, runs=None):
    ms = [m for m in load_mutants() if m["property"] in props]
    rc = 0
    caught = 0
    for m in ms:
        scratch = make_scratch_copy()
        rdir = tempfile.mkdtemp(prefix="svgverif-replays-", dir=os.environ.get("TMPDIR") or "/var/tmp")
        try:
            ok, why = apply_mutant(scratch, m)
            if not ok:
                print("MUTANT-STALE %s (%s): %s" % (m["id"], m["property"], why))
                rc = 2
                continue
            n = runs or m.get("runs") or 6000
            code, out, err = _check(m["property"], scratch, n, rdir)
            hit = code == 1 and ("VIOLATION property=%s" % m["property"]) in out
            if hit:
                caught += 1
                line = [l for l in out.splitlines() if l.startswith("  oracle=")][:1]
                print("mutant %-34s %s caught   %s" % (m["id"], m["property"], line[0].strip() if line else ""))
            else:
                rc = 2
                print("mutant %-34s %s MISSED (exit %d)\n%s" % (m["id"], m["property"], code, (out + err)[-800:]))
        finally:
            shutil.rmtree(scratch, ignore_errors=True)
            shutil.rmtree(rdir, ignore_errors=True)
    # the unmodified copy must stay silent
    for prop in props:
        scratch = make_scratch_copy()
        rdir = tempfile.mkdtemp(prefix="svgverif-replays-", dir=os.environ.get("TMPDIR") or "/var/tmp")
        try:
            code, out, err = _check(prop, scratch, runs or 3000, rdir)
            if code != 0 or "VIOLATION" in out:
                rc = 2
                print("UNMODIFIED-COPY-ALARM %s (exit %d)\n%s" % (prop, code, (out + err)[-800:]))
            else:
                print("unmodified copy %s: silent" % prop)
        finally:
            shutil.rmtree(scratch, ignore_errors=True)
            shutil.rmtree(rdir, ignore_errors=True)
    print("mutants: %d/%d caught" % (caught, len(ms)))
    return rc
