"""
Read-only observation of library objects through public fields, and tolerant
comparison. Nothing here mutates the observed object: derived values are taken
from private copies.
"""
import math


def pt(p):
    if p is None:
        return None
    return (p.x, p.y)


def seg_kind(seg):
    return type(seg).__name__


KIND_LETTER = {"Move": "M", "Line": "L", "Close": "z", "QuadraticBezier": "Q", "CubicBezier": "C", "Arc": "A"}


def kinds(path_or_segs):
    return "".join(KIND_LETTER.get(type(s).__name__, "?") for s in path_or_segs)


def seg_points(seg):
    """Defining points (and sweep) of a segment, as plain tuples."""
    k = type(seg).__name__
    if k in ("Move", "Line", "Close"):
        return [pt(seg.start), pt(seg.end)]
    if k == "QuadraticBezier":
        return [pt(seg.start), pt(seg.control), pt(seg.end)]
    if k == "CubicBezier":
        return [pt(seg.start), pt(seg.control1), pt(seg.control2), pt(seg.end)]
    if k == "Arc":
        return [pt(seg.start), pt(seg.end), pt(seg.center), pt(seg.prx), pt(seg.pry), seg.sweep]
    return [repr(seg)]


def arc_samples(seg):
    """What an arc draws, independent of which conjugate pair of radii represents its ellipse: centre, three
    interior points, sweep."""
    return [pt(seg.center), pt(seg.point(0.25)), pt(seg.point(0.5)), pt(seg.point(0.75)), seg.sweep]


def seg_snap(seg):
    return (type(seg).__name__, seg_points(seg))


def path_snap(segs):
    return [seg_snap(s) for s in segs]


def is_num(v):
    return isinstance(v, (int, float)) and not isinstance(v, bool)


def finite(v):
    if isinstance(v, int) and not isinstance(v, bool):
        return True  # an int is an exact real, however large (never convert it here)
    return is_num(v) and math.isfinite(v)


def close_num(a, b, rel=1e-9, absol=0.0):
    if a is None or b is None:
        return a is None and b is None
    if not (is_num(a) and is_num(b)):
        return a == b
    if a == b:
        return True
    try:
        a, b = float(a), float(b)
    except OverflowError:
        return False  # an int beyond any double and something different from it
    if math.isnan(a) or math.isnan(b):
        return math.isnan(a) and math.isnan(b)
    if math.isinf(a) or math.isinf(b):
        return False
    return abs(a - b) <= absol + rel * max(abs(a), abs(b))


def close_val(a, b, rel=1e-9, absol=0.0):
    """Recursive comparison of tuples/lists of numbers/None/strings."""
    if isinstance(a, (tuple, list)) and isinstance(b, (tuple, list)):
        if len(a) != len(b):
            return False
        return all(close_val(x, y, rel, absol) for x, y in zip(a, b))
    return close_num(a, b, rel, absol)


def snap_scale(snap):
    """Largest absolute coordinate in a path snapshot (for scaled tolerances)."""
    m = 0.0
    for _k, pts in snap:
        for p in pts:
            if isinstance(p, tuple):
                for v in p:
                    if finite(v):
                        try:
                            m = max(m, abs(float(v)))
                        except OverflowError:
                            m = max(m, 1e308)
    return m


def snaps_equal(a, b, rel=1e-9, skip_move_start=False):
    """Compare two path snapshots; returns (ok, message)."""
    if len(a) != len(b):
        return False, "length %d != %d" % (len(a), len(b))
    scale = max(snap_scale(a), snap_scale(b))
    absol = rel * scale
    for i, ((ka, pa), (kb, pb)) in enumerate(zip(a, b)):
        if ka != kb:
            return False, "segment %d kind %s != %s" % (i, ka, kb)
        if skip_move_start and ka == "Move":
            pa, pb = pa[1:], pb[1:]
        if not close_val(pa, pb, rel, absol):
            return False, "segment %d (%s) %r != %r" % (i, ka, pa, pb)
    return True, ""


def all_points_numeric(segs):
    """Every defining point of every segment is present with finite numeric x and y.

    Leniency the library documents (path fragments): a point may be None only
    where no current point exists yet - the start of a segment when no earlier
    segment has an end, and the end of a Close in the same situation (nothing to
    close to). Move.start is a bookkeeping back-link and may always be None.
    Returns (ok, message, nonfinite)."""
    nonfinite = False
    have_point = False
    for i, seg in enumerate(segs):
        pts = seg_points(seg)
        name = type(seg).__name__
        for j, p in enumerate(pts):
            if p is None:
                if j == 0 and (name == "Move" or not have_point):
                    continue
                if name == "Close" and j == 1 and not have_point:
                    continue
                return False, "segment %d (%s) point %d is None" % (i, name, j), nonfinite
            if isinstance(p, tuple):
                for v in p:
                    if not is_num(v):
                        return False, "segment %d (%s) point %d has non-numeric %r" % (i, name, j, v), nonfinite
                    if not finite(v):
                        nonfinite = True
            elif is_num(p):
                if not finite(p):
                    nonfinite = True
            else:
                return False, "segment %d (%s) field %d is %r" % (i, name, j, p), nonfinite
        if getattr(seg, "end", None) is not None:
            have_point = True
    return True, "", nonfinite


def sample_points(seg, n=8):
    """n+1 samples of seg.point(t) as tuples; Move yields its end."""
    out = []
    for i in range(n + 1):
        p = seg.point(i / float(n))
        out.append(pt(p))
    return out


# --------------------------------------------------------------------------
# documents
# --------------------------------------------------------------------------


def color_val(c):
    if c is None:
        return None
    return getattr(c, "value", None)


def _plain(se, v):
    if isinstance(v, se.Length):
        return ("Len", v.amount, v.units)
    return v


def _walk_tree(se, node, skip_ns=None):
    """Document-order walk of the returned tree through its public list structure (what elements()
    flattens), leaving out every node whose serial is in skip_ns together with everything under it.
    Not recursive: returned trees may be deeper than the interpreter's recursion limit."""
    stack = [iter([node])]
    while stack:
        child = next(stack[-1], None)
        if child is None:
            stack.pop()
            continue
        if skip_ns and len(stack) > 1:
            vals = getattr(child, "values", None) or {}
            if vals.get("data-n") in skip_ns:
                continue
        yield child
        if isinstance(child, list) and isinstance(child, se.SVGElement):
            stack.append(iter(child))


def observe_doc(se, svg, keep_path=False, rendered_stroke=False, skip_ns=None):
    """Read-only observation of a parsed tree: one record per rendered element, in document order.

    Shape: (n, class, geometry of abs(Path(copy)), fill, stroke, stroke_width, id)
    Text / Title / Desc: (n, class, text, transform, fill, stroke)
    """
    out = []
    if svg is None or not hasattr(svg, "elements"):
        return out
    for e in _walk_tree(se, svg, skip_ns):
        vals = getattr(e, "values", None) or {}
        n = vals.get("data-n")
        own = vals.get("attributes") if isinstance(vals.get("attributes"), dict) else None
        own_n = own is not None and own.get("data-n") == n and n is not None
        cls = type(e).__name__
        if isinstance(e, se.Shape):
            try:
                p = abs(se.Path(e))
                geom = path_snap(list(p))
            except Exception as ex:  # observation never raises; the oracle sees the marker
                geom = [("error", [type(ex).__name__])]
            sw = e.stroke_width
            if rendered_stroke:
                # the width actually drawn: a lazily transformed shape scales its stroke with its matrix
                try:
                    sw = e.implicit_stroke_width
                except Exception:
                    sw = e.stroke_width
            if isinstance(sw, se.Length):
                sw = ("Len", sw.amount, sw.units)
            rec = {"n": n, "own_n": own_n, "cls": cls, "geom": geom, "fill": color_val(e.fill), "stroke": color_val(e.stroke), "sw": sw, "id": e.id}
            if keep_path:
                rec["_elem"] = e
                if geom and geom[0][0] != "error":
                    rec["_path"] = p
            out.append(rec)
        elif isinstance(e, se.Text):
            t = e.transform
            out.append({"n": n, "cls": cls, "text": e.text, "xf": (t.a, t.b, t.c, t.d, t.e, t.f) if t is not None else None, "x": e.x, "y": e.y, "fill": color_val(e.fill), "stroke": color_val(e.stroke), "id": e.id})
        elif isinstance(e, se.Image):
            t = e.transform
            out.append({"n": n, "cls": cls, "url": e.url, "x": _plain(se, e.x), "y": _plain(se, e.y), "w": _plain(se, e.width), "h": _plain(se, e.height), "xf": (t.a, t.b, t.c, t.d, t.e, t.f) if t is not None else None, "id": e.id})
        elif isinstance(e, se.Title):
            out.append({"n": n, "cls": cls, "text": e.title, "id": e.id})
        elif isinstance(e, se.Desc):
            out.append({"n": n, "cls": cls, "text": e.desc, "id": e.id})
    return out


def records_equal(a, b, rel=1e-9, geom_abs=None):
    """Compare two observation records; returns (ok, message)."""
    if a["cls"] != b["cls"]:
        return False, "class %s != %s" % (a["cls"], b["cls"])
    for k in sorted(set(a) | set(b)):
        if k in ("geom", "cls", "own_n") or k.startswith("_"):
            continue
        va, vb = a.get(k), b.get(k)
        if not close_val(va, vb, rel, 0.0):
            return False, "%s %r != %r" % (k, va, vb)
    if "geom" in a or "geom" in b:
        ok, msg = snaps_equal(a.get("geom", []), b.get("geom", []), rel=rel, skip_move_start=True)
        if not ok:
            return False, "geometry: " + msg
    return True, ""
