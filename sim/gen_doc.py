"""
Document workload: generator of well-formed SVG documents as a tree of element
records, serialiser, attribute fault grammar (syntactically malformed text
only), use-retargeting faults and the exempt-set computation of C10.

An element record is {"tag", "attrs": {name: text}, "kids": [...], "text", "n"};
every element carries the serial attribute data-n used only for attribution.
"""
import copy as _copy
from xml.sax.saxutils import escape, quoteattr

from sim import gen_path as gp

SHAPES = ["rect", "circle", "ellipse", "line", "polyline", "polygon", "path"]
CONTAINERS = ["g", "svg", "defs"]
COLORS = ["red", "blue", "#123456", "#abc", "rgb(10,20,30)", "rgb(10%,20%,30%)", "none", "currentColor", "green", "#ff000080", "hsl(120,100%,50%)", "black", "orange", "#12345600", "rgba(10,20,30,0)", "#0f08"]
TRANSFORMS = [
    "translate(10,20)", "translate(-5.5)", "scale(2)", "scale(0.5,3)", "rotate(30)", "rotate(45,10,10)", "scale(-1,1)",
    "matrix(1,0.5,-0.3,2,5,6)", "skewX(10)", "translate(10,0) rotate(90)", "scale(1,-1) translate(0,-50)", "matrix(0.5 0 0 0.5 1 1)",
]
UNITS = ["", "", "", "px", "mm", "pt", "%"]

ATTR_KIND = {
    "d": "path", "transform": "transform", "fill": "colour", "stroke": "colour", "points": "points", "viewBox": "viewbox",
    "fill-opacity": "number", "stroke-opacity": "number", "stroke-width": "length", "opacity": "number",
    "x": "length", "y": "length", "width": "length", "height": "length", "cx": "length", "cy": "length", "r": "length",
    "rx": "length", "ry": "length", "x1": "length", "y1": "length", "x2": "length", "y2": "length",
    "style": "style", "patternTransform": "transform", "dx": "length", "dy": "length", "font-size": "length",
    "preserveAspectRatio": "par", "clip-path": "clip", "color": "colour",
    # names that are no SVG attributes but keys the library uses in its own value dictionaries
    "image": "odd", "text": "odd", "tag": "odd", "attributes": "odd", "apply": "odd", "center": "odd", "pathd_loaded": "odd",
    "viewport_transform": "odd", "stroke_width": "odd", "font_size": "odd", "path": "odd", "segments": "odd", "title": "odd", "desc": "odd",
}
# attributes any graphics or container element may carry: a fault may also *add* one of them, malformed
ADDABLE = ["clip-path", "transform", "style", "fill", "stroke", "color", "opacity", "stroke-width", "fill-opacity", "stroke-opacity",
           "image", "text", "tag", "attributes", "apply", "center", "pathd_loaded", "viewport_transform", "stroke_width", "font_size", "path", "segments", "title", "desc"]

# keywords that are legal somewhere in CSS/SVG and rare everywhere: offered to every attribute kind
KEYWORDS = ["inherit", "initial", "unset", "currentColor", "currentcolor", "none", "auto", "transparent", "INHERIT"]

BAD = {
    "transform": ["matrix(1 2 3)", "rotate()", "rotate(abc)", "foo(1)", "translate(1", "scale(,)", "matrix(1,2,3,4,5,x)", "rotate(1e)", ")", "translate(", "matrix()", "rotate(30", "scale(2) rotate(", "translate(1,2,3) matrix(1)", "skewX()", "12", "scale(1 2 3 4)", "rotate(10,20)", "translate(--1)", "matrix(1,0,0,1,0)"],
    "colour": ["#12", "rgb(300,,)", "hsl(1,2,3)", "junk", "url(#nope)", "rgb(1,2", "#gggggg", "rgba()", "rgb(a,b,c)", "#", "hsl(120,100%)", "rgb(1,2,3,4,5)", "12", "rgb(10%,20,30%)", "#1234567", "rgb()", "hsla(1,2%,3%,x)", "colour", "rgb(1e400,0,0)", "#ff ff ff"],
    "length": ["abc", "1..2", "5zz", "-", "+", "1e", "px", "%", "", " ", "1e400", "--5", "5 5", "0x10", "NaN", "1,5", "e5", ".", "5e+", "∞", "1em", "2.5ex", "1em"],
    "points": ["1,2 3", "1,2,x", "junk", "1 2 3 4 5", "", ",", "1,,2", "1e 2", "a,b c,d", "1,2 3,4 5,", "(1,2)", "1;2 3;4"],
    "viewbox": ["0 0 100", "a b c d", "0,0,,", "", "0 0 0 0", "1 2 3 4 5", "0 0 -10 10", "0 0 1e400 1", "none", "0 0 100 x"],
    "number": ["junk", "1..", "-", "", "1e", "50%%", "0,5", "abc", "1e400", "++1"],
    "odd": ["x", "", "1", "none", "M0,0 h", "rotate(", "#12", "a b", "True", "0"],
    "clip": ["none", "inherit", "", "#c", "url(#c", "junk", "url", "url(#nope)", "url()", "url(#c) url(#d)", "URL(#c)", "url( #c )", "url('#c')", "#", "url(#"],
    "par": ["xMidYMid foo", "none none", "", "junk", "xMinYMin meet slice", "slice", "xmidymid", "xMaxYMax  ", "meet xMidYMid", "defer"],
    "style": ["fill:#gg;stroke:rgb(300,,)", "fill", ":::", "stroke-width:1..2", "fill:url(#nope)", "fill:#12;stroke-width:abc;;:", "stroke:hsl(1,2,3);fill-opacity:1e400", "transform:matrix(1 2 3)", "fill:rgb(1,2", ";", "fill:red;stroke-width:-;stroke:#1234567", "stroke-opacity:junk;fill:", "fill:red:blue", "d:M0,0 h", "image:x", "text:y;tag:z", "attributes:1;apply:0"],
}


# --------------------------------------------------------------------------
# generation
# --------------------------------------------------------------------------


def _num(ch, lo=-100, hi=300):
    v = ch.int(lo * 10, hi * 10) / 10.0
    s = "%g" % v
    return s


def _pos(ch, lo=1, hi=200):
    return "%g" % (ch.int(lo * 10, hi * 10) / 10.0)


def _len(ch, positive=False, pct_ok=True):
    n = _pos(ch) if positive else _num(ch)
    u = ch.choice(UNITS)
    if u == "%" and not pct_ok:
        u = ""
    if u == "%":
        n = "%g" % (ch.int(1, 100))
    if u == "mm":
        n = "%g" % (ch.int(1, 400) / 10.0)
    return n + u


def _paint(ch, attrs, classes):
    if ch.coin(0.7):
        how = ch.choice(["attr", "attr", "style"])
        decl = {}
        if ch.coin(0.7):
            decl["fill"] = ch.choice(COLORS)
        if ch.coin(0.6):
            decl["stroke"] = ch.choice(COLORS)
        if ch.coin(0.4):
            decl["stroke-width"] = ch.choice(["2", "0.5", "3px", "1.5", "1mm", "2%", "0"])
        if ch.coin(0.2):
            decl["fill-opacity"] = ch.choice(["0.5", "0.25", "1", "0"])
        if ch.coin(0.2):
            decl["stroke-opacity"] = ch.choice(["0.5", "0.75"])
        if how == "attr":
            attrs.update(decl)
        elif decl:
            attrs["style"] = ";".join("%s:%s" % kv for kv in decl.items())
    if classes and ch.coin(0.25):
        attrs["class"] = ch.choice(classes)
    if ch.coin(0.1):
        attrs["color"] = ch.choice(["red", "#00f", "lime"])
    if ch.coin(0.04):
        attrs["display"] = "none"
    if ch.coin(0.03):
        attrs["vector-effect"] = "non-scaling-stroke"
    if ch.coin(0.35):
        attrs["transform"] = ch.choice(TRANSFORMS)


def gen_shape(ch, tag, classes, pct_ok=True):
    a = {}
    if tag == "rect":
        a.update({"x": _len(ch, pct_ok=pct_ok), "y": _len(ch, pct_ok=pct_ok), "width": _len(ch, True, pct_ok), "height": _len(ch, True, pct_ok)})
        if ch.coin(0.3):
            a["rx"] = _pos(ch, 1, 20)
            if ch.coin(0.6):
                a["ry"] = _pos(ch, 1, 20)
    elif tag == "circle":
        a.update({"cx": _len(ch, pct_ok=pct_ok), "cy": _len(ch, pct_ok=pct_ok), "r": _pos(ch)})
    elif tag == "ellipse":
        a.update({"cx": _len(ch, pct_ok=pct_ok), "cy": _len(ch, pct_ok=pct_ok), "rx": _pos(ch), "ry": _pos(ch)})
    elif tag == "line":
        a.update({"x1": _len(ch, pct_ok=pct_ok), "y1": _len(ch, pct_ok=pct_ok), "x2": _len(ch, pct_ok=pct_ok), "y2": _len(ch, pct_ok=pct_ok)})
    elif tag in ("polyline", "polygon"):
        n = ch.int(2, 6)
        a["points"] = " ".join("%s,%s" % (_num(ch), _num(ch)) for _ in range(n))
    elif tag == "path":
        cmds = gp.gen_cmds(ch, ch.int(2, 6), mag=100.0, allow_zc=False, arc_zero=False)
        a["d"] = gp.render(cmds, ch.int(0, 63))
    _paint(ch, a, classes)
    if ch.coin(0.12):
        # positions exactly at the default: the writer omits them, the reader must not find them elsewhere
        for kx, ky in (("x", "y"), ("cx", "cy"), ("x1", "y1")):
            if kx in a:
                a[kx], a[ky] = "0", "0"
    if a.get("transform") == "translate(10,20)" and ch.coin(0.4):
        # the translation cancels a coordinate exactly: after reify the attribute is exactly 0
        for kx, ky in (("x", "y"), ("cx", "cy"), ("x1", "y1")):
            if kx in a:
                a[kx], a[ky] = "-10", "-20"
    return {"tag": tag, "attrs": a, "kids": [], "text": None}


class _Gen:
    def __init__(self, ch, max_elems, max_depth, opts):
        self.ch = ch
        self.budget = max_elems
        self.max_depth = max_depth
        self.opts = opts
        self.ids = []
        self.falsy_ids = set()
        self.classes = []
        self.clips = []
        self.n = 0

    def elem(self, tag, attrs=None, kids=None, text=None):
        self.n += 1
        self.budget -= 1
        return {"tag": tag, "attrs": attrs or {}, "kids": kids or [], "text": text}

    def maybe_id(self, e, p=0.45):
        if self.ch.coin(0.02):
            # an id that is falsy as a Python value: still an id (never referenced by the generator's own uses)
            # ("0", not "": a use written href="#" - one of the dangling spellings - would resolve to an empty id)
            v = self.ch.choice(["0", "0"])
            if v not in self.falsy_ids:  # ids stay unique: a duplicate would make the removal of one element re-target uses
                self.falsy_ids.add(v)
                e["attrs"]["id"] = v
            return
        if self.ch.coin(p):
            i = "e%d" % (len(self.ids) + 1)
            e["attrs"]["id"] = i
            self.ids.append(i)

    def children(self, depth, in_defs=False):
        ch = self.ch
        out = []
        want = ch.int(1, 5)
        while want > 0 and self.budget > 0:
            want -= 1
            k = ch.weighted([
                ("shape", 10), ("g", 3 if depth < self.max_depth else 0), ("use", 2.5 if self.ids or self.opts.get("forward_use", True) else 0),
                ("defs", 1 if depth <= 1 and not in_defs else 0), ("text", 1.2), ("title", 0.4), ("desc", 0.3),
                ("svg", 0.7 if depth < self.max_depth and self.opts.get("nested_svg", True) else 0),
                ("image", 0.5 if self.opts.get("extra_kinds") else 0), ("clip", 0.4 if self.opts.get("extra_kinds") and depth <= 2 else 0),
                ("pattern", 0.25 if self.opts.get("extra_kinds") and depth <= 2 else 0), ("unknown", 0.3 if self.opts.get("extra_kinds") and depth < self.max_depth else 0),
                ("tspan", 0.4 if self.opts.get("extra_kinds") else 0),
            ])
            if k == "shape":
                e = gen_shape(ch, ch.choice(SHAPES), self.classes, pct_ok=self.opts.get("percent", True))
                self.n += 1
                self.budget -= 1
                self.maybe_id(e)
                if self.clips and ch.coin(0.3):
                    e["attrs"]["clip-path"] = "url(#%s)" % ch.choice(self.clips)
                out.append(e)
            elif k == "g":
                a = {}
                _paint(ch, a, self.classes)
                if self.clips and ch.coin(0.2):
                    a["clip-path"] = "url(#%s)" % ch.choice(self.clips)
                e = self.elem("g", a)
                self.maybe_id(e, 0.6)
                e["kids"] = self.children(depth + 1, in_defs)
                out.append(e)
            elif k == "defs":
                e = self.elem("defs")
                e["kids"] = self.children(depth + 1, True)
                for kdef in e["kids"]:
                    if "id" not in kdef["attrs"] and kdef["tag"] not in ("title", "desc", "use"):
                        self.maybe_id(kdef, 1.0)
                out.append(e)
            elif k == "use":
                a = {}
                if ch.coin(0.5):
                    a["x"] = _num(ch)
                    a["y"] = _num(ch)
                if ch.coin(0.15):
                    a["width"] = _len(ch, True)
                    a["height"] = _len(ch, True)
                _paint(ch, a, self.classes)
                a["__href__"] = ch.choice(["href", "xlink:href"])
                e = self.elem("use", a)
                e["use_pending"] = True
                out.append(e)
            elif k == "text":
                a = {"x": _num(ch), "y": _num(ch)}
                if ch.coin(0.3):
                    a["font-size"] = ch.choice(["12", "10pt", "2em", "150%"])
                if ch.coin(0.2):
                    a["dx"], a["dy"] = _num(ch, 0, 10), _num(ch, 0, 10)
                _paint(ch, a, self.classes)
                e = self.elem("text", a, text=ch.choice(["hello", "Grüße – ünïcode ✓", "a < b & c", "line one", "x" * 40, "日本語テキスト"]))
                out.append(e)
            elif k in ("title", "desc"):
                e = self.elem(k, {}, text=ch.choice(["A title", "déscription", "t&t"]))
                out.append(e)
            elif k == "image":
                a = {"x": _len(ch, pct_ok=False), "y": _len(ch, pct_ok=False), "width": _len(ch, True), "height": _len(ch, True), ch.choice(["href", "xlink:href"]): "pic%d.png" % self.n}
                if ch.coin(0.3):
                    a["preserveAspectRatio"] = ch.choice(["none", "xMinYMin meet"])
                if ch.coin(0.4):
                    a["transform"] = ch.choice(TRANSFORMS)
                out.append(self.elem("image", a))
            elif k == "clip":
                cid = "cp%d" % self.n
                e = self.elem("clipPath", {"id": cid})
                e["kids"] = [gen_shape(ch, ch.choice(["rect", "circle", "path"]), self.classes)]
                self.n += 1
                self.budget -= 1
                out.append(e)
                self.clips.append(cid)
            elif k == "pattern":
                a = {"id": "pat%d" % self.n, "width": _pos(ch, 1, 50), "height": _pos(ch, 1, 50)}
                if ch.coin(0.5):
                    a["patternTransform"] = ch.choice(TRANSFORMS)
                e = self.elem("pattern", a)
                e["kids"] = [gen_shape(ch, ch.choice(["rect", "circle"]), self.classes)]
                self.n += 1
                self.budget -= 1
                out.append(e)
            elif k == "unknown":
                a = {"bar": "1"}
                _paint(ch, a, self.classes)
                e = self.elem(ch.choice(["foo", "symbol", "marker", "switch", "a"]), a)
                e["kids"] = self.children(depth + 1, in_defs)
                out.append(e)
            elif k == "tspan":
                a = {"x": _num(ch), "y": _num(ch)}
                _paint(ch, a, self.classes)
                e = self.elem("text", a, text="outer ")
                e["kids"] = [self.elem("tspan", {"dx": "5", "fill": ch.choice(COLORS)}, text=ch.choice(["inner", "ünï", "a&b"]))]
                out.append(e)
            elif k == "svg":
                a = {"x": _num(ch, 0, 50), "y": _num(ch, 0, 50), "width": _len(ch, True), "height": _len(ch, True)}
                if ch.coin(0.5):
                    a["viewBox"] = ch.choice(["0 0 100 100", "0 0 50 200", "-10 -10 40 40"])
                    if ch.coin(0.3):
                        a["preserveAspectRatio"] = ch.choice(["none", "xMinYMin meet", "xMaxYMax slice", "xMidYMid meet"])
                e = self.elem("svg", a)
                e["kids"] = self.children(depth + 1, in_defs)
                out.append(e)
        return out


def gen_doc(ch, max_elems=12, max_depth=3, **opts):
    g = _Gen(ch, max_elems, max_depth, opts)
    root_attrs = {}
    dims = ch.choice([("200", "100"), ("10cm", "5cm"), ("100%", "100%"), (None, None), ("300px", "300px"), ("400", "200"), ("200", "100"), ("0", "100") if ch.coin(0.3) else ("150", "150")])
    if dims[0]:
        root_attrs["width"], root_attrs["height"] = dims
    vb = ch.choice([None, "0 0 200 100", "0 0 100 100", "-50 -50 100 100", "0 0 400 100", "0 0 300 300"])
    if vb:
        root_attrs["viewBox"] = vb
        if ch.coin(0.3):
            root_attrs["preserveAspectRatio"] = ch.choice(["none", "xMinYMin meet", "xMidYMid slice", "xMaxYMid meet"])
    if ch.coin(0.15):
        root_attrs["fill"] = ch.choice(COLORS)
    root = g.elem("svg", root_attrs)
    kids = []
    if ch.coin(0.3) and opts.get("style_sheet", True):
        g.classes = ["c1", "c2"]
        sheet = ".c1 { fill: %s; stroke: %s } .c2 { stroke-width: 3 } rect { stroke: %s } /* c */ #e1 { fill: %s }" % (ch.choice(COLORS), ch.choice(COLORS), ch.choice(COLORS), ch.choice(COLORS))
        kids.append(g.elem("style", {}, text=sheet))
    kids += g.children(1)
    root["kids"] = kids
    # resolve use targets (forward and backward references both occur)
    for e in walk(root):
        if e.pop("use_pending", None):
            hattr = e["attrs"].pop("__href__")
            if g.ids:
                # never target an ancestor or itself in the fault-free document
                anc = ancestors_ids(root, e)
                cands = [i for i in g.ids if i not in anc]
                if cands:
                    e["attrs"][hattr] = "#" + ch.choice(cands)
                    continue
            e["attrs"][hattr] = "#none-such"
    if opts.get("use_heavy"):
        # a container that is instantiated by a use placed before it and by one placed after it
        groups = [e for e in walk(root) if e["tag"] == "g" and e["kids"]]
        if not groups:
            gnew = g.elem("g", {}, kids=[gen_shape(ch, ch.choice(SHAPES), g.classes), gen_shape(ch, ch.choice(SHAPES), g.classes)])
            root["kids"].insert(ch.int(0, len(root["kids"])), gnew)
            groups = [gnew]
        tgt = ch.choice(groups)
        if "id" not in tgt["attrs"]:
            tgt["attrs"]["id"] = "grp%d" % len(g.ids)
        for where in ("before", "after", "after"):
            a = {ch.choice(["href", "xlink:href"]): "#" + tgt["attrs"]["id"]}
            if ch.coin(0.5):
                a["transform"] = ch.choice(TRANSFORMS)
            if ch.coin(0.3):
                a["x"], a["y"] = _num(ch), _num(ch)
            u = g.elem("use", a)
            if where == "before":
                root["kids"].insert(0 if root["kids"] and root["kids"][0]["tag"] != "style" else 1, u)
            else:
                root["kids"].append(u)
        if ch.coin(0.5):
            # a chain A -> B: a group A that holds a use of B, B holding a use of its own, and a later use of A
            inner = g.elem("use", {"href": "#" + (ch.choice(g.ids) if g.ids else "none-such")})
            tgt["kids"].append(inner)
            aid = "chain%d" % len(g.ids)
            ga = g.elem("g", {"id": aid}, kids=[g.elem("use", {"href": "#" + tgt["attrs"]["id"]}), gen_shape(ch, ch.choice(SHAPES), g.classes)])
            root["kids"].insert(ch.int(0, len(root["kids"])), ga)
            root["kids"].append(g.elem("use", {"xlink:href": "#" + aid, "transform": ch.choice(TRANSFORMS)}))
    number(root)
    # uses must not form cycles in the fault-free document
    break_cycles(root)
    return root


def number(root):
    for i, e in enumerate(walk(root)):
        e["n"] = i
        e["attrs"]["data-n"] = str(i)


def walk(e):
    yield e
    for k in e["kids"]:
        yield from walk(k)


def walk_with_parent(e, parent=None):
    yield e, parent
    for k in e["kids"]:
        yield from walk_with_parent(k, e)


def ancestors_ids(root, target):
    path = []

    def rec(e, stack):
        if e is target:
            path.extend(stack)
            return True
        for k in e["kids"]:
            if rec(k, stack + [e]):
                return True
        return False

    rec(root, [])
    return {a["attrs"].get("id") for a in path if a["attrs"].get("id")} | ({target["attrs"].get("id")} if target["attrs"].get("id") else set())


def href_of(e):
    for k in ("href", "xlink:href"):
        if k in e["attrs"]:
            return k, e["attrs"][k]
    return None, None


def by_id(root):
    out = {}
    for e in walk(root):
        i = e["attrs"].get("id")
        if i is not None and i not in out:
            out[i] = e
    return out


def reaches(root, start, ids=None):
    """Set of element serials reachable from `start` through children and use references."""
    ids = ids or by_id(root)
    seen = set()
    stack = [start]
    while stack:
        e = stack.pop()
        if id(e) in seen:
            continue
        seen.add(id(e))
        for k in e["kids"]:
            stack.append(k)
        if e["tag"] == "use":
            _, h = href_of(e)
            if h and h[1:] in ids:
                stack.append(ids[h[1:]])
    return seen


def break_cycles(root):
    ids = by_id(root)
    for e in walk(root):
        if e["tag"] == "use":
            _, h = href_of(e)
            if h and h[1:] in ids:
                if id(e) in reaches(root, ids[h[1:]], ids):
                    k, _ = href_of(e)
                    e["attrs"][k] = "#none-such"


def expanded_size(root):
    """Number of element instances after use expansion (cycles cut), and total attribute text."""
    ids = by_id(root)

    def rec(e, active, depth):
        if depth > 40:
            return 1, 0
        n = 1
        chars = sum(len(k) + len(str(v)) for k, v in e["attrs"].items()) + len(e.get("text") or "")
        for k in e["kids"]:
            a, b = rec(k, active, depth + 1)
            n += a
            chars += b
        if e["tag"] == "use":
            _, h = href_of(e)
            if h and h[1:] in ids and id(ids[h[1:]]) not in active and id(e) not in active:
                a, b = rec(ids[h[1:]], active | {id(e), id(ids[h[1:]])}, depth + 1)
                n += a
                chars += b
        return n, chars

    return rec(root, frozenset(), 0)


# --------------------------------------------------------------------------
# serialisation
# --------------------------------------------------------------------------


def serialise(root, declaration=True, indent=False):
    out = []
    if declaration:
        out.append('<?xml version="1.0" encoding="UTF-8"?>\n')

    def rec(e, depth, top):
        attrs = dict(e["attrs"])
        parts = ["<" + e["tag"]]
        if top:
            parts.append(' xmlns="http://www.w3.org/2000/svg" xmlns:xlink="http://www.w3.org/1999/xlink"')
        for k, v in attrs.items():
            if k.startswith("__"):
                continue
            parts.append(" %s=%s" % (k, quoteattr(str(v))))
        if not e["kids"] and not e.get("text"):
            parts.append("/>")
            out.append("".join(parts))
        else:
            parts.append(">")
            out.append("".join(parts))
            if e.get("text"):
                out.append(escape(e["text"]))
            for k in e["kids"]:
                if indent:
                    out.append("\n" + "  " * (depth + 1))
                rec(k, depth + 1, False)
            if indent and e["kids"]:
                out.append("\n" + "  " * depth)
            out.append("</%s>" % e["tag"])

    rec(root, 0, True)
    return "".join(out)


# --------------------------------------------------------------------------
# faults on attribute values (C10)
# --------------------------------------------------------------------------

FAULT_KINDS = ["path", "transform", "colour", "length", "points", "viewbox", "number", "style", "use-missing", "use-self", "use-ancestor", "use-cycle"]


def bad_path(ch):
    """Malformed path data: a damaged grammar-conforming string or a bare fragment."""
    if ch.coin(0.35):
        pre = ch.choice(["", "M0,0 ", "M1,2 L3,4 ", "M0,0 Q1,1 2,2 "])
        return pre + ch.choice(gp.FRAGMENTS)
    cmds = gp.gen_cmds(ch, ch.int(1, 5), mag=100.0)
    s = gp.render(cmds, ch.int(0, 63))
    how = ch.choice(["truncate", "junk", "flip", "strip"])
    if how == "truncate" and len(s) > 1:
        return s[: ch.int(1, len(s) - 1)]
    if how == "junk":
        i = ch.int(0, len(s))
        return s[:i] + ch.choice(gp.JUNK_CHARS + gp.JUNK_STRINGS) + s[i:]
    if how == "flip" and s:
        i = ch.int(0, len(s) - 1)
        return s[:i] + ch.choice(["x", "#", "(", "\xa0", "é"]) + s[i + 1 :]
    toks = gp.tokens_of(cmds)
    i = 1
    while i < len(toks) and toks[i][0] != "cmd":
        i += 1
    return gp.render_tokens(toks[i:], 0) or "h"


def xml_safe(s):
    """Attribute text must stay well-formed XML: drop characters XML 1.0 forbids."""
    return "".join(c for c in s if c in "\t\n\r" or (ord(c) >= 0x20 and ord(c) not in (0xFFFE, 0xFFFF)))


def candidates(root):
    """(element, attr, kind) triples a fault may land on: attribute values of graphics,
    container and use elements; never id / data-n / class / style sheets / text."""
    out = []
    for e, parent in walk_with_parent(root):
        if e["tag"] in ("style", "title", "desc"):
            continue
        for a in e["attrs"]:
            k = ATTR_KIND.get(a)
            if k:
                out.append((e, a, k))
        if e["tag"] == "use":
            out.append((e, "href", "use"))
    return out


def apply_faults(ch, root, n_faults, bias=None):
    """Mutates `root` in place. Returns the list of fault descriptors
    {n, tag, attr, kind, value}."""
    faults = []
    ids = by_id(root)
    for _ in range(n_faults):
        cands = candidates(root)
        if not cands:
            break
        pool = cands
        if bias == "container":
            sel = [c for c in cands if c[0]["tag"] in ("g", "svg", "use")]
            pool = sel or cands
        elif bias == "used":
            used = set()
            for e in walk(root):
                if e["tag"] == "use":
                    _, h = href_of(e)
                    if h:
                        used.add(h[1:])
            sel = [c for c in cands if c[0]["attrs"].get("id") in used]
            pool = sel or cands
        elif bias == "in-used":
            used = set()
            for e in walk(root):
                if e["tag"] == "use":
                    _, h = href_of(e)
                    if h:
                        used.add(h[1:])
            sel = []
            for e in walk(root):
                if e["attrs"].get("id") in used and e["kids"]:
                    inner = {id(x) for x in walk(e)} - {id(e)}
                    sel += [c for c in cands if id(c[0]) in inner]
            pool = sel or cands
        elif bias == "edge":
            sel = []
            for e, parent in walk_with_parent(root):
                if parent is not None and parent["kids"] and (e is parent["kids"][0] or e is parent["kids"][-1]):
                    sel += [c for c in cands if c[0] is e]
            pool = sel or cands
        elif bias in ATTR_KIND.values() or bias == "use":
            sel = [c for c in cands if c[2] == bias]
            pool = sel or cands
        e, a, k = ch.choice(pool)
        if bias == "absent" or ch.coin(0.08):
            # the faulted attribute is one the element did not state at all
            absent = [(x, t, ATTR_KIND[t]) for x in walk(root) if x["tag"] not in ("style", "title", "desc") for t in ADDABLE if t not in x["attrs"]]
            if absent:
                e, a, k = ch.choice(absent)
        if e is root and ch.coin(0.75):
            # a fault on the root leaves only the no-raise/steps oracles: keep most faults below it
            below = [c for c in pool if c[0] is not root] or [c for c in cands if c[0] is not root]
            if below:
                e, a, k = ch.choice(below)
        if k == "use":
            kind = ch.choice(["use-missing", "use-self", "use-ancestor", "use-cycle"])
            hk, _ = href_of(e)
            hk = hk or "href"
            if kind == "use-missing":
                val = ch.choice(["#does-not-exist", "#", "", "nohash", "#e999", "http://example.com/x.svg#a"])
            elif kind == "use-self":
                if "id" not in e["attrs"]:
                    e["attrs"]["id"] = "u%d" % e["n"]
                val = "#" + e["attrs"]["id"]
            elif kind == "use-ancestor":
                anc = None
                for x, parent in walk_with_parent(root):
                    pass
                chain = _ancestor_chain(root, e)
                chain = [x for x in chain if x["tag"] in ("g", "svg")]
                if chain:
                    anc = ch.choice(chain)
                    if "id" not in anc["attrs"]:
                        anc["attrs"]["id"] = "anc%d" % anc["n"]
                    val = "#" + anc["attrs"]["id"]
                else:
                    kind = "use-missing"
                    val = "#does-not-exist"
            elif kind == "use-cycle" and _chain_cycle(root, e, ids) is not None:
                # a cycle through containers with ONE offending element: e sits in a group B that some group A
                # instantiates; retargeting e at A closes the loop A -> B -> A
                val = "#" + _chain_cycle(root, e, ids)
            else:
                # mutual cycle: this use points at a group that contains a use pointing back at this use's parent group
                chain = [x for x in _ancestor_chain(root, e) if x["tag"] == "g"]
                others = [x for x in walk(root) if x["tag"] == "use" and x is not e]
                if others:
                    o = ch.choice(others)
                    if "id" not in o["attrs"]:
                        o["attrs"]["id"] = "u%d" % o["n"]
                    if "id" not in e["attrs"]:
                        e["attrs"]["id"] = "u%d" % e["n"]
                    ok, _ = href_of(o)
                    o["attrs"][ok or "href"] = "#" + e["attrs"]["id"]
                    val = "#" + o["attrs"]["id"]
                    faults.append({"n": o["n"], "tag": "use", "attr": ok or "href", "kind": "use-cycle", "value": o["attrs"][ok or "href"]})
                else:
                    kind = "use-self"
                    if "id" not in e["attrs"]:
                        e["attrs"]["id"] = "u%d" % e["n"]
                    val = "#" + e["attrs"]["id"]
            e["attrs"][hk] = val
            faults.append({"n": e["n"], "tag": e["tag"], "attr": hk, "kind": kind, "value": val})
            continue
        if k == "path":
            val = xml_safe(bad_path(ch))
        elif k == "colour" and ch.coin(0.4):
            # a malformed near-spelling of a colour that well-formed siblings use: whatever the parser keeps
            # about the bad one must not reach the good ones
            base = ch.choice([c for c in COLORS if len(c) > 3 and c not in ("none", "currentColor")])
            i = ch.int(1, len(base) - 1)
            val = base[:i] + ch.choice([" ", "  ", "\t"]) + base[i:]
        elif k not in ("path",) and ch.coin(0.12):
            val = ch.choice(KEYWORDS)
            if k == "style":
                val = "%s:%s;%s:%s" % (ch.choice(["fill", "stroke", "color", "stroke-width", "fill-opacity", "font-size", "visibility"]), val, ch.choice(["stroke", "fill", "color"]), ch.choice(KEYWORDS))
        else:
            val = ch.choice(BAD[k])
        if val.lower() == "currentcolor" and a in ("fill", "stroke", "color") and ch.coin(0.5):
            # the keyword on both ends of its own chain, on one element
            other = "color" if a != "color" else ch.choice(["fill", "stroke"])
            e["attrs"][other] = "currentColor"
            faults.append({"n": e["n"], "tag": e["tag"], "attr": other, "kind": k, "value": "currentColor"})
        e["attrs"][a] = val
        faults.append({"n": e["n"], "tag": e["tag"], "attr": a, "kind": k, "value": val})
    return faults


def _chain_cycle(root, e, ids):
    """id of a container A (not an ancestor of e) such that A holds a use of an ancestor B of e; or None."""
    anc = [x for x in _ancestor_chain(root, e) if x["attrs"].get("id")]
    anc_ids = {x["attrs"]["id"] for x in anc}
    for a in walk(root):
        if a["tag"] not in ("g", "svg") or not a["attrs"].get("id") or a["attrs"]["id"] in anc_ids:
            continue
        for u in walk(a):
            if u["tag"] == "use" and u is not e:
                _, h = href_of(u)
                if h and h[1:] in anc_ids:
                    return a["attrs"]["id"]
    return None


def _ancestor_chain(root, target):
    path = []

    def rec(e, stack):
        if e is target:
            path.extend(stack)
            return True
        for k in e["kids"]:
            if rec(k, stack + [e]):
                return True
        return False

    rec(root, [])
    return path


def exempt_set(root, offending):
    """Serial numbers of the source elements whose instances are unconstrained:
    the offending elements and their descendants, and everything referenced
    (transitively) by a use inside that set (its expansion instantiates that
    content once more, inside the offending subtree). A use *outside* the set that
    points at a container holding an offending element is not exempt: the instances
    it makes of the container's other children are outside the offending element's
    subtree and must come out as if the offending element were not there; only the
    instance of the offending element itself (same serial) is filtered out."""
    ids = by_id(root)
    byn = {e["n"]: e for e in walk(root)}
    E = set()
    for n in offending:
        if n in byn:
            for e in walk(byn[n]):
                E.add(e["n"])
    changed = True
    while changed:
        changed = False
        for e in walk(root):
            if e["tag"] != "use":
                continue
            _, h = href_of(e)
            tgt = ids.get(h[1:]) if h else None  # (href="#" names the empty id, as the library resolves it)
            if tgt is None:
                continue
            tset = {x["n"] for x in walk(tgt)}
            if e["n"] in E and not tset <= E:
                E |= tset
                changed = True
    return E


def offending_subtrees(root, offending):
    """Serials of the offending elements and of their source descendants."""
    E = set()
    byn = {e["n"]: e for e in walk(root)}
    for n in offending:
        if n in byn:
            for e in walk(byn[n]):
                E.add(e["n"])
    return E


def referenced_by(root, offending):
    """Serials of everything the offending use elements reference, transitively through uses inside it."""
    ids = by_id(root)
    byn = {e["n"]: e for e in walk(root)}
    T = set()
    stack = []
    for n in offending:
        e = byn.get(n)
        if e is not None:
            stack += [x for x in walk(e) if x["tag"] == "use"]
    seen = set()
    while stack:
        u = stack.pop()
        if id(u) in seen:
            continue
        seen.add(id(u))
        _, h = href_of(u)
        tgt = ids.get(h[1:]) if h else None  # (href="#" names the empty id, as the library resolves it)
        if tgt is None:
            continue
        for x in walk(tgt):
            T.add(x["n"])
            if x["tag"] == "use":
                stack.append(x)
    return T


def remove_elements(root, serials):
    """A deep copy of the document without the given elements (and their subtrees)."""
    r = _copy.deepcopy(root)

    def rec(e):
        e["kids"] = [k for k in e["kids"] if k["n"] not in serials]
        for k in e["kids"]:
            rec(k)

    rec(r)
    return r
