"""
Simulation core: seeds, chooser, trace/digest, outcome classes, step counter,
per-run watchdog, pool driver, minimisation loop, replay files, evidence.

Everything a run decides is a pure function of (VERIF_SEED, property, index);
everything a run observes is a pure function of the generated case and the code
under /repo (or $VERIF_REPO for the mutant self-test).
"""
import collections
import concurrent.futures
import hashlib
import json
import multiprocessing
import os
import random
import signal
import subprocess
import sys
import time
import traceback

VERIF_DIR = os.path.dirname(os.path.dirname(os.path.abspath(__file__)))
REPO = os.environ.get("VERIF_REPO", "/repo")
SE_FILE = os.path.join(REPO, "svgelements", "svgelements.py")

OK = "OK"
VIOLATION = "VIOLATION"
HARNESS_ERROR = "HARNESS_ERROR"
TIMEOUT = "TIMEOUT"


# --------------------------------------------------------------------------
# loading the system under test
# --------------------------------------------------------------------------

_se = None


def load_se():
    """Import svgelements from REPO's working tree (never from site-packages)."""
    global _se
    if _se is not None:
        return _se
    sys.dont_write_bytecode = True
    if sys.path[0] != REPO:
        sys.path.insert(0, REPO)
    for name in list(sys.modules):
        if name == "svgelements" or name.startswith("svgelements."):
            del sys.modules[name]
    # numpy / scipy / PIL are absent from the repo's environment; the library probes for them with a
    # try-import inside hot functions. A None entry makes that probe fail at once (same ImportError,
    # same pure-Python path) instead of searching sys.path on every call.
    for absent in ("numpy", "scipy", "scipy.integrate", "scipy.special", "PIL"):
        if absent not in sys.modules:
            try:
                __import__(absent)
                raise RuntimeError("%s is importable: the checks assume the pinned pure-Python environment" % absent)
            except ImportError:
                sys.modules[absent] = None
    import svgelements.svgelements as se  # noqa

    got = os.path.realpath(se.__file__)
    if got != os.path.realpath(SE_FILE):
        raise RuntimeError("svgelements imported from %s, wanted %s" % (got, SE_FILE))
    _se = se
    return se


_fresh_code = None


def fresh_se():
    """A new, pristine instance of the module under test (its own classes, its own class- and module-level
    state): what a freshly started process would see. Executing the compiled module body takes ~1 ms."""
    global _fresh_code
    import types

    load_se()
    if _fresh_code is None:
        with open(SE_FILE) as f:
            _fresh_code = compile(f.read(), SE_FILE, "exec")
    m = types.ModuleType("svgelements_pristine")
    m.__file__ = SE_FILE
    exec(_fresh_code, m.__dict__)
    return m


def code_fingerprint():
    with open(SE_FILE, "rb") as f:
        return hashlib.sha256(f.read()).hexdigest()


# --------------------------------------------------------------------------
# seeds and choices
# --------------------------------------------------------------------------


def base_seed():
    try:
        return int(os.environ.get("VERIF_SEED", "0"))
    except ValueError:
        return 0


def run_seed(base, prop, index):
    h = hashlib.sha256(("%d/%s/%d" % (base, prop, index)).encode()).digest()
    return int.from_bytes(h[:8], "big")


class Chooser:
    """The only source of choice in a run. Wraps one PRNG; never reads clocks."""

    def __init__(self, seed):
        self.seed = seed
        self.r = random.Random(seed)
        self.draws = 0

    def int(self, a, b):
        self.draws += 1
        return self.r.randint(a, b)

    def choice(self, seq):
        self.draws += 1
        return seq[self.r.randrange(len(seq))]

    def coin(self, p=0.5):
        self.draws += 1
        return self.r.random() < p

    def uniform(self, a, b):
        self.draws += 1
        return self.r.uniform(a, b)

    def sample(self, seq, k):
        self.draws += 1
        seq = list(seq)
        k = min(k, len(seq))
        return self.r.sample(seq, k)

    def shuffle(self, lst):
        self.draws += 1
        self.r.shuffle(lst)

    def weighted(self, pairs):
        """pairs: list of (item, weight)."""
        self.draws += 1
        total = sum(w for _, w in pairs)
        x = self.r.random() * total
        acc = 0.0
        for item, w in pairs:
            acc += w
            if x < acc:
                return item
        return pairs[-1][0]

    def subset(self, seq, p=0.5, at_least=0):
        out = [x for x in seq if self.coin(p)]
        while len(out) < at_least and len(out) < len(seq):
            x = self.choice(seq)
            if x not in out:
                out.append(x)
        return out


# --------------------------------------------------------------------------
# trace / outcome
# --------------------------------------------------------------------------


def canon(obj):
    return json.dumps(obj, sort_keys=True, separators=(",", ":"), ensure_ascii=True, default=str)


class Trace:
    """Event log of one run. Global event sequence number = simulated time."""

    __slots__ = ("h", "n", "keep", "events")

    def __init__(self, keep=False):
        self.h = hashlib.sha256()
        self.n = 0
        self.keep = keep
        self.events = []

    def ev(self, kind, *data):
        self.n += 1
        rec = "%d|%s|%s" % (self.n, kind, "|".join(str(d) for d in data))
        self.h.update(rec.encode("utf-8", "backslashreplace"))
        self.h.update(b"\n")
        if self.keep:
            self.events.append(rec)

    def digest(self):
        return self.h.hexdigest()


class Violation(Exception):
    """Raised by oracles inside execute(); caught by run_case()."""

    def __init__(self, oracle, sig, detail=""):
        Exception.__init__(self, oracle, sig, detail)
        self.oracle = oracle
        self.sig = [str(s) for s in sig]
        self.detail = detail


class StepBudgetExceeded(BaseException):
    pass


class RunTimeout(BaseException):
    pass


class Outcome:
    """Result + measurements of one run."""

    def __init__(self):
        self.status = OK
        self.oracle = None
        self.sig = None
        self.detail = None
        self.counters = collections.Counter()  # "fault:...", "op:...", "probe:...", "skip:..."
        self.abstract = set()
        self.steps = 0
        self.digest = None
        self.extra = {}

    def count(self, key, n=1):
        self.counters[key] += n

    def state(self, key):
        self.abstract.add(key)

    def as_dict(self):
        return {
            "status": self.status,
            "oracle": self.oracle,
            "sig": self.sig,
            "detail": self.detail,
            "steps": self.steps,
            "digest": self.digest,
            "extra": self.extra,
        }

    def key(self):
        return (self.oracle, tuple(self.sig or ()))


def innermost_se_frame(tb):
    """(function name, lineno) of the innermost frame inside svgelements.py."""
    fn, ln = "?", 0
    while tb is not None:
        code = tb.tb_frame.f_code
        if code.co_filename.endswith("svgelements.py"):
            fn, ln = code.co_name, tb.tb_lineno
        tb = tb.tb_next
    return fn, ln


def is_harness_exc(e):
    """True when the innermost frame of the exception is inside /verif: a bug of the
    machinery that surfaced inside a library call, never a finding."""
    seen = 0
    x = e
    while x is not None and seen < 10:
        if getattr(x, "injected", False):
            return False  # a fault the simulator injected on purpose (or a consequence of one)
        x = x.__cause__ or x.__context__
        seen += 1
    tb = e.__traceback__
    last = None
    while tb is not None:
        last = tb.tb_frame.f_code.co_filename
        tb = tb.tb_next
    return bool(last) and os.path.abspath(last).startswith(VERIF_DIR + os.sep)


class HarnessFault(Exception):
    pass


def exc_sig(e):
    fn, ln = innermost_se_frame(e.__traceback__)
    return type(e).__name__, fn


# --------------------------------------------------------------------------
# step counter: deterministic "time" inside svgelements.py
# --------------------------------------------------------------------------


class StepCounter:
    """Counts interpreter line events in svgelements.py via sys.monitoring.

    The count is a pure function of the executed code path, so a budget on it
    is a deterministic, never-flaky termination oracle.
    """

    TOOL = 3

    def __init__(self):
        self.count = 0
        self.budget = None
        self.exceeded = False
        self.active = False
        self._installed = False

    def install(self):
        if self._installed:
            return
        mon = sys.monitoring
        try:
            mon.use_tool_id(self.TOOL, "verif-steps")
        except ValueError:
            pass
        mon.register_callback(self.TOOL, mon.events.LINE, self._line)
        mon.register_callback(self.TOOL, mon.events.PY_START, self._call)
        mon.register_callback(self.TOOL, mon.events.PY_RESUME, self._call)
        self._installed = True

    def _line(self, code, lineno):
        if not code.co_filename.endswith("svgelements.py"):
            return sys.monitoring.DISABLE
        self.count += 1
        if self.budget is not None and self.count > self.budget:
            self.exceeded = True
            # raise once: generators being closed while this unwinds must not trip over it again
            sys.monitoring.set_events(self.TOOL, 0)
            self.active = False
            raise StepBudgetExceeded()

    def _call(self, code, offset):
        # coarse mode: function entries and generator resumptions in svgelements.py (about a tenth of the line
        # events and of their cost): enough to bound a parse that never ends, too coarse to calibrate a budget on
        if not code.co_filename.endswith("svgelements.py"):
            return sys.monitoring.DISABLE
        self.count += 1
        if self.budget is not None and self.count > self.budget:
            self.exceeded = True
            sys.monitoring.set_events(self.TOOL, 0)
            self.active = False
            raise StepBudgetExceeded()

    def start(self, budget=None, coarse=False):
        self.install()
        self.count = 0
        self.budget = budget
        self.exceeded = False
        ev = sys.monitoring.events
        sys.monitoring.set_events(self.TOOL, (ev.PY_START | ev.PY_RESUME) if coarse else ev.LINE)
        self.active = True

    def stop(self):
        if self.active:
            sys.monitoring.set_events(self.TOOL, 0)
            self.active = False
        self.budget = None
        return self.count


STEPS = StepCounter()


# --------------------------------------------------------------------------
# running one case
# --------------------------------------------------------------------------

RUN_WALL_LIMIT = 30  # seconds; converts a hang into a report, nothing else


def _alarm(signum, frame):
    raise RunTimeout()


def apply_mem_cap():
    """A run that allocates without bound (a parser loop that keeps appending) must end in MemoryError inside the
    run, not take the machine down: the address space of every process that executes cases (chunk children,
    replays, history replays) is capped, the same way, so that such a run ends the same way everywhere."""
    try:
        import resource

        cap = int(os.environ.get("VERIF_MEM_CAP_GB", "3")) << 30
        resource.setrlimit(resource.RLIMIT_AS, (cap, cap))
    except Exception:
        pass


def run_case(mod, case, keep_trace=False, wall_limit=RUN_WALL_LIMIT):
    """Execute one case with the module's oracles. Never raises."""
    se = load_se()
    out = Outcome()
    trace = Trace(keep=keep_trace)
    old = None
    try:
        old = signal.signal(signal.SIGALRM, _alarm)
        signal.alarm(wall_limit)
    except ValueError:
        old = None
    try:
        try:
            mod.execute(case, se, out, trace)
        finally:
            STEPS.stop()
            signal.alarm(0)
    except Violation as v:
        out.status = VIOLATION
        out.oracle = v.oracle
        out.sig = v.sig
        out.detail = v.detail
    except RunTimeout:
        out.status = TIMEOUT
        out.oracle = "hang"
        out.sig = ["wall"]
        out.detail = "run exceeded %ds wall clock" % wall_limit
    except StepBudgetExceeded:
        out.status = HARNESS_ERROR
        out.detail = "step budget exception escaped the harness"
    except BaseException as e:  # a bug in the harness, never a finding
        if isinstance(e, KeyboardInterrupt):
            raise
        out.status = HARNESS_ERROR
        out.detail = "".join(traceback.format_exception(type(e), e, e.__traceback__))[-3000:]
    finally:
        if old is not None:
            try:
                signal.signal(signal.SIGALRM, old)
            except ValueError:
                pass
    out.digest = trace.digest()
    if keep_trace:
        out.extra["events"] = trace.events
    return out


# --------------------------------------------------------------------------
# batch worker
# --------------------------------------------------------------------------

MAX_KEEP_PER_SIG = 1
MAX_SIGS = 60


def _case_size(case):
    return len(canon(case))


def _import_check(name):
    import importlib

    if VERIF_DIR not in sys.path:
        sys.path.insert(1, VERIF_DIR)
    return importlib.import_module("checks." + name.lower())


def worker_chunk(args):
    """Run one chunk in a forked child of this (pristine) worker: every chunk starts from the state the
    library has right after import, so that a result which depends on *earlier runs* (state leaking
    between calls) is reproducible by replaying the chunk prefix in a fresh interpreter."""
    if os.environ.get("VERIF_NO_FORK"):
        return _chunk_body(args)
    import pickle

    rfd, wfd = os.pipe()
    pid = os.fork()
    if pid == 0:
        code = 0
        try:
            os.close(rfd)
            res = _chunk_body(args)
            with os.fdopen(wfd, "wb") as w:
                pickle.dump(res, w, protocol=pickle.HIGHEST_PROTOCOL)
        except BaseException:
            code = 3
            try:
                traceback.print_exc()
            except Exception:
                pass
        finally:
            os._exit(code)
    os.close(wfd)
    with os.fdopen(rfd, "rb") as r:
        data = r.read()
    _, status = os.waitpid(pid, 0)
    if status != 0 or not data:
        modname, base, lo, hi, tier = args
        return {
            "lo": lo, "hi": hi, "counters": collections.Counter(), "abstract": set(), "digest": "dead-child-%d" % status,
            "viol": [], "nviol": 0, "harness": [(lo, "chunk child exited with status %d" % status)], "nharness": 1,
            "timeouts": [], "samples": [], "steps": 0, "wall": 0.0,
        }
    return pickle.loads(data)


def _chunk_body(args):
    modname, base, lo, hi, tier = args
    import gc

    apply_mem_cap()

    gc.disable()
    mod = _import_check(modname)
    from checks import known

    load_se()
    counters = collections.Counter()
    abstract = set()
    digest = hashlib.sha256()
    viol = {}  # key -> (size, index, case, outcome dict)
    nviol = 0
    harness = []
    timeouts = []
    samples = []
    steps = 0
    t0 = time.time()
    for i in range(lo, hi):
        seed = run_seed(base, mod.PROPERTY, i)
        try:
            case = mod.generate(seed, i, tier)
        except BaseException as e:
            if isinstance(e, KeyboardInterrupt):
                raise
            harness.append((i, "generate: " + "".join(traceback.format_exception(type(e), e, e.__traceback__))[-2000:]))
            continue
        out = run_case(mod, case)
        gc.collect()
        counters.update(out.counters)
        counters["runs"] += 1
        abstract.update(out.abstract)
        steps += out.steps
        digest.update(("%d:%s\n" % (i, out.digest)).encode())
        if out.status == VIOLATION:
            nviol += 1
            counters["status:violation"] += 1
            od = out.as_dict()
            kid = known.match(mod.PROPERTY, case, od)
            od["known"] = kid
            if kid is not None:
                counters["known:" + kid] += 1
            k = out.key() + (kid,)
            size = _case_size(case)
            od["chunk_lo"] = lo
            if k in viol:
                if size < viol[k][0]:
                    viol[k] = (size, i, case, od)
            elif len(viol) < MAX_SIGS:
                viol[k] = (size, i, case, od)
            else:
                counters["status:violation-sig-overflow"] += 1
        elif out.status == HARNESS_ERROR:
            harness.append((i, out.detail))
        elif out.status == TIMEOUT:
            timeouts.append((i, case))
        if len(samples) < 2 and out.status == OK and (i - lo) in (0, (hi - lo) // 2):
            samples.append({"index": i, "case": case})
    return {
        "lo": lo,
        "hi": hi,
        "counters": counters,
        "abstract": abstract,
        "digest": digest.hexdigest(),
        "viol": list(viol.values()),
        "nviol": nviol,
        "harness": harness[:5],
        "nharness": len(harness),
        "timeouts": timeouts[:3],
        "samples": samples,
        "steps": steps,
        "wall": time.time() - t0,
    }


def n_workers():
    try:
        w = int(os.environ.get("VERIF_WORKERS", "0"))
    except ValueError:
        w = 0
    if w <= 0:
        w = os.cpu_count() or 4
    return w


def run_batch(modname, base, n_runs, tier, workers=None, chunk=None, wall_cap=None, start=0):
    """Run indices [start, start+n_runs). Returns merged result dict."""
    workers = workers or n_workers()
    if chunk is None:
        chunk = max(10, min(500, n_runs // (workers * 8) or 10))
    tasks = []
    lo = start
    while lo < start + n_runs:
        hi = min(start + n_runs, lo + chunk)
        tasks.append((modname, base, lo, hi, tier))
        lo = hi
    merged = {
        "counters": collections.Counter(),
        "abstract": set(),
        "chunk_digests": {},
        "viol": {},
        "nviol": 0,
        "harness": [],
        "nharness": 0,
        "timeouts": [],
        "samples": [],
        "steps": 0,
        "runs_done": 0,
        "truncated": False,
    }
    t0 = time.time()
    ctx = multiprocessing.get_context("fork")
    if workers == 1:
        results = map(worker_chunk, tasks)
        pool = None
    else:
        pool = concurrent.futures.ProcessPoolExecutor(max_workers=workers, mp_context=ctx)
        futs = [pool.submit(worker_chunk, t) for t in tasks]
        results = (f.result() for f in futs)
    try:
        for r in results:
            merged["counters"].update(r["counters"])
            merged["abstract"].update(r["abstract"])
            merged["chunk_digests"][r["lo"]] = r["digest"]
            merged["nviol"] += r["nviol"]
            for size, i, case, od in r["viol"]:
                k = (od["oracle"], tuple(od["sig"] or ()), od.get("known"))
                if k not in merged["viol"] or size < merged["viol"][k][0]:
                    merged["viol"][k] = (size, i, case, od)
            merged["harness"].extend(r["harness"])
            merged["nharness"] += r["nharness"]
            merged["timeouts"].extend(r["timeouts"])
            if len(merged["samples"]) < 4:
                merged["samples"].extend(r["samples"][: 4 - len(merged["samples"])])
            merged["steps"] += r["steps"]
            merged["runs_done"] += r["hi"] - r["lo"]
            if wall_cap is not None and time.time() - t0 > wall_cap:
                merged["truncated"] = True
                break
    finally:
        if pool is not None:
            pool.shutdown(wait=False, cancel_futures=True)
    h = hashlib.sha256()
    for lo in sorted(merged["chunk_digests"]):
        h.update(("%d:%s\n" % (lo, merged["chunk_digests"][lo])).encode())
    merged["digest"] = h.hexdigest()
    merged["wall"] = time.time() - t0
    return merged


# --------------------------------------------------------------------------
# minimisation
# --------------------------------------------------------------------------


def minimise(mod, case, oracle, budget=400, same_sig=None):
    """Greedy one-step reduction: keep a candidate iff the same oracle tag fires
    (and, when given, the same signature)."""
    execs = 0
    improved = True
    cur = case
    while improved and execs < budget:
        improved = False
        for cand in mod.shrink(cur):
            if execs >= budget:
                break
            execs += 1
            out = run_case(mod, cand)
            if out.status == VIOLATION and out.oracle == oracle and (same_sig is None or out.sig == same_sig):
                cur = cand
                improved = True
                break
    return cur, execs


def ddmin_list(lst):
    """Yield one-step reductions of a list: drop halves, quarters, then singles."""
    n = len(lst)
    if n == 0:
        return
    size = n // 2
    while size >= 1:
        for s in range(0, n, size):
            cand = lst[:s] + lst[s + size :]
            if len(cand) < n:
                yield cand
        if size == 1:
            break
        size //= 2


# --------------------------------------------------------------------------
# replay files
# --------------------------------------------------------------------------


def write_replay(prop, base, index, case, od, minimised, execs, dirname=None, history=None):
    dirname = dirname or os.environ.get("VERIF_REPLAY_DIR") or os.path.join(VERIF_DIR, "replays")
    os.makedirs(dirname, exist_ok=True)
    body = {
        "property": prop,
        "verif_seed": base,
        "run_index": index,
        "run_seed": run_seed(base, prop, index),
        "minimised": minimised,
        "minimise_execs": execs,
        "violation": {"oracle": od["oracle"], "sig": od["sig"], "detail": od["detail"]},
        "trace_digest": od["digest"],
        "code_sha256": code_fingerprint(),
        "case": case,
    }
    if history:
        # the violation depends on earlier runs in the same process: replay = execute these cases in order, judge the last
        body["history"] = history
        body["history_dependent"] = True
    tag = hashlib.sha256(canon([body["case"], body.get("history")]).encode()).hexdigest()[:12]
    path = os.path.join(dirname, "%s-%s-%s.json" % (prop, od["oracle"], tag))
    with open(path, "w") as f:
        json.dump(body, f, indent=1, sort_keys=True)
        f.write("\n")
    return path


def replay_in_fresh_process(prop, path):
    """Run `check <prop> --replay path` in a new interpreter; return (reproduced, output)."""
    cmd = [sys.executable, "-B", os.path.join(VERIF_DIR, "check.py"), prop, "--replay", path]
    env = dict(os.environ)
    env["PYTHONHASHSEED"] = "0"
    try:
        p = subprocess.run(cmd, capture_output=True, text=True, timeout=300, env=env, cwd=VERIF_DIR)
    except subprocess.TimeoutExpired:
        return False, "replay timed out"
    return p.returncode == 1 and "VIOLATION property=%s" % prop in p.stdout, p.stdout + p.stderr


def run_history_in_fresh_process(prop, cases, timeout=600):
    """Execute `cases` in order in one new interpreter; return the outcome dict of the last (or None)."""
    import tempfile

    fd, path = tempfile.mkstemp(prefix="svgverif-hist-", suffix=".json", dir=os.environ.get("TMPDIR") or "/var/tmp")
    try:
        with os.fdopen(fd, "w") as f:
            json.dump({"cases": cases}, f)
        cmd = [sys.executable, "-B", os.path.join(VERIF_DIR, "check.py"), prop, "--run-history", path]
        env = dict(os.environ)
        env["PYTHONHASHSEED"] = "0"
        try:
            p = subprocess.run(cmd, capture_output=True, text=True, timeout=timeout, env=env, cwd=VERIF_DIR)
        except subprocess.TimeoutExpired:
            return None
        for line in reversed(p.stdout.splitlines()):
            if line.startswith("HISTORY-RESULT "):
                return json.loads(line[len("HISTORY-RESULT "):])
        return None
    finally:
        try:
            os.unlink(path)
        except OSError:
            pass
