"""
Path-data workload: grammar-directed generator of path data as command/token
lists (so that splitting, deleting and duplicating are list operations), a
renderer with varied separators and number spellings, the stored-data fault
kinds of C09, and an independent reference recogniser of the SVG 2 path grammar
(shares no code or regular expression with svgelements).
"""

ARGC = {"M": 2, "L": 2, "T": 2, "H": 1, "V": 1, "C": 6, "S": 4, "Q": 4, "A": 7, "Z": 0}
LETTERS = "MmLlHhVvCcSsQqTtAaZz"
DRAW_LETTERS = "LlHhVvCcSsQqTtAa"
MAGS = [0.001, 1.0, 100.0, 100000.0]


# --------------------------------------------------------------------------
# numbers
# --------------------------------------------------------------------------


def gen_number(ch, mag, positive=False, allow_zero=True):
    """A number *spelling* (string). Value is 0 or of magnitude ~mag."""
    if allow_zero and ch.coin(0.08):
        return ch.choice(["0", "0", "0.0", "-0", "0e0"])
    m = ch.int(1, 9999)
    digits = ch.choice([1, 2, 3, 4])
    m = int(str(m)[:digits])
    if m == 0:
        m = 1
    # value = m * 10^k chosen so that |value| ~ mag
    import math

    k = int(round(math.log10(mag))) - (len(str(m)) - 1) + ch.choice([-1, 0, 0, 0, 1])
    neg = (not positive) and ch.coin(0.4)
    style = ch.weighted([("plain", 6), ("exp", 2), ("dot", 1), ("plus", 1)])
    if style == "exp" or k > 6 or k < -7:
        e = ch.choice(["e", "E"])
        txt = "%d%s%d" % (m, e, k)
        if ch.coin(0.3) and len(str(m)) > 1:
            sm = str(m)
            txt = "%s.%s%s%d" % (sm[0], sm[1:], e, k + len(sm) - 1)
    else:
        if k >= 0:
            txt = str(m) + "0" * k
            if ch.coin(0.15):
                txt += ".0"
        else:
            sm = str(m)
            if -k < len(sm):
                txt = sm[:k] + "." + sm[k:]
            else:
                txt = "0." + "0" * (-k - len(sm)) + sm
            if style == "dot" and txt.startswith("0."):
                txt = txt[1:]
    if neg:
        txt = "-" + txt
    elif style == "plus":
        txt = "+" + txt
    return txt


def gen_args(ch, letter, mag, arc_zero=True):
    u = letter.upper()
    if u == "A":
        rx = gen_number(ch, mag, positive=not (arc_zero and ch.coin(0.05)), allow_zero=arc_zero and ch.coin(0.1))
        ry = gen_number(ch, mag, positive=not (arc_zero and ch.coin(0.05)), allow_zero=arc_zero and ch.coin(0.1))
        rot = ch.choice(["0", "0", "30", "-45", "90", "19", "123.5", "360", "1e1"])
        return [rx, ry, rot, ch.choice("01"), ch.choice("01"), gen_number(ch, mag), gen_number(ch, mag)]
    return [gen_number(ch, mag) for _ in range(ARGC[u])]


# --------------------------------------------------------------------------
# command lists
# --------------------------------------------------------------------------


def gen_cmds(ch, n_cmds, mag=None, leading_move=True, letters=None, allow_zc=True, max_groups=3, arc_zero=True):
    """List of commands: {"c": letter, "g": [[spelling,...],...], "zc": 0|1}.

    zc=1: the final coordinate pair of the last group is replaced by an inline
    close (SVG 2 segment-completing close path)."""
    if mag is None:
        mag = ch.choice(MAGS)
    letters = letters or LETTERS
    cmds = []
    if leading_move:
        c = "M" if ch.coin(0.8) else "m"
        ng = 1 if ch.coin(0.8) else ch.int(2, 3)
        cmds.append({"c": c, "g": [gen_args(ch, c, mag) for _ in range(ng)], "zc": 0})
    while len(cmds) < n_cmds:
        c = ch.choice(letters)
        if c in "Zz":
            cmds.append({"c": c, "g": [], "zc": 0})
            continue
        ng = 1 if ch.coin(0.75) else ch.int(2, max_groups)
        g = [gen_args(ch, c, mag, arc_zero) for _ in range(ng)]
        zc = 0
        if allow_zc and c.upper() in "LTCSQA" and ch.coin(0.04):
            zc = 1
            if c.upper() in "LT":
                g = []  # grammar: L followed directly by closepath
            else:
                g = g[:1]
        cmd = {"c": c, "g": g, "zc": zc}
        if zc and ch.coin(0.5):
            cmd["zcs"] = "Z"
        cmds.append(cmd)
    return cmds


def cmd_tokens(cmd):
    """Tokens of one command: (kind, text), kind in cmd|num|flag|zc."""
    c = cmd["c"]
    toks = [("cmd", c)]
    u = c.upper()
    groups = cmd["g"]
    for gi, g in enumerate(groups):
        last = gi == len(groups) - 1
        args = list(g)
        if cmd.get("zc") and last and u not in "LT":
            args = args[:-2]
        for ai, a in enumerate(args):
            if u == "A" and ai in (3, 4):
                toks.append(("flag", a))
            else:
                toks.append(("num", a))
    if cmd.get("zc"):
        toks.append(("zc", cmd.get("zcs", "z")))
    return toks


def tokens_of(cmds):
    toks = []
    for cmd in cmds:
        toks.extend(cmd_tokens(cmd))
    return toks


SEPS = [",", " ", ", ", "  ", " ,", "\n", "\t", " , "]


def needs_sep(prev, nxt, compact):
    pk, pt = prev
    nk, nt = nxt
    if pk in ("cmd", "zc") or nk in ("cmd", "zc"):
        return False
    if pk == "flag":
        return not compact
    if nk == "flag":
        return True
    if not compact:
        return True
    if nt[0] in "+-":
        return False
    if nt[0] == "." and ("." in pt or "e" in pt.lower()):
        return False
    return True


def render_tokens(toks, style=0):
    """style: int; bit0 compact, bit1 space after command letter, bits2.. separator rotation."""
    compact = bool(style & 1)
    cmd_space = bool(style & 2)
    rot = style >> 2
    out = []
    prev = None
    for i, t in enumerate(toks):
        if prev is not None:
            if needs_sep(prev, t, compact):
                out.append(SEPS[(i * 5 + rot) % len(SEPS)])
            elif t[0] == "cmd" and (style & 4 or prev[0] != "cmd") and not compact:
                out.append(" ")
            elif prev[0] == "cmd" and cmd_space:
                out.append(" ")
            elif t[0] == "zc" and not compact:
                out.append(" ")
        out.append(t[1])
        prev = t
    return "".join(out)


def render(cmds, style=0):
    return render_tokens(tokens_of(cmds), style)


# --------------------------------------------------------------------------
# reference recogniser (SVG 2 path grammar, written from the BNF)
# --------------------------------------------------------------------------

_WSP = "\t \n\x0c\r"
_DIG = "0123456789"


def _ws(s, i):
    n = len(s)
    while i < n and s[i] in _WSP:
        i += 1
    return i


def _cws(s, i):
    """comma_wsp? : (wsp+ ","? wsp*) | ("," wsp*) | empty"""
    j = _ws(s, i)
    if j < len(s) and s[j] == ",":
        j = _ws(s, j + 1)
    return j


def _num(s, i, signed=True):
    """end of the longest number starting at i, or -1."""
    n = len(s)
    j = i
    if signed and j < n and s[j] in "+-":
        j += 1
    k = j
    while k < n and s[k] in _DIG:
        k += 1
    intdigits = k - j
    if k < n and s[k] == "." and k + 1 < n and s[k + 1] in _DIG:
        k += 1
        while k < n and s[k] in _DIG:
            k += 1
    elif intdigits == 0:
        return -1
    # exponent
    if k < n and s[k] in "eE":
        m = k + 1
        if m < n and s[m] in "+-":
            m += 1
        if m < n and s[m] in _DIG:
            while m < n and s[m] in _DIG:
                m += 1
            k = m
    return k


def _nums(s, i, count):
    """`count` numbers separated by comma_wsp?; end index or -1."""
    j = i
    for a in range(count):
        if a:
            j = _cws(s, j)
        e = _num(s, j)
        if e < 0:
            return -1
        j = e
    return j


def _arc5(s, i):
    """rx ry rot flag flag ; end or -1 (numbers unsigned per grammar are still accepted signed:
    SVG 2 says negative radii are taken absolute)."""
    j = _nums(s, i, 3)
    if j < 0:
        return -1
    j = _cws(s, j)
    if j >= len(s) or s[j] not in "01":
        return -1
    j = _cws(s, j + 1)
    if j >= len(s) or s[j] not in "01":
        return -1
    return j + 1


def _group(s, i, u, first):
    """One argument group of command u at i.

    Returns (end, closing) ; end=-1 when no complete group starts here.
    closing=True when the group was completed by an inline closepath."""
    n = len(s)
    if u == "A":
        j = _arc5(s, i)
        if j < 0:
            return -1, False
        k = _cws(s, j)
        e = _nums(s, k, 2)
        if e >= 0:
            return e, False
        if k < n and s[k] in "zZ":
            return k + 1, True
        return -1, False
    pairs = ARGC[u] // 2
    if u in "HV":
        return _num(s, i), False
    e = _nums(s, i, 2 * pairs)
    if e >= 0:
        return e, False
    # closing forms
    if u in "MHV":
        return -1, False
    if u in "LT":
        if first and i < n and s[i] in "zZ":
            return i + 1, True
        return -1, False
    # C S Q : coordinate_pair_sequence? closepath
    j = i
    got = 0
    while got < pairs:
        e = _nums(s, j, 2)
        if e < 0:
            break
        got += 1
        j = _cws(s, e)
    if got < pairs and j < n and s[j] in "zZ":
        return j + 1, True
    return -1, False


def longest_valid_prefix(s, continuation=False):
    """max k such that s[:k] is a grammar-conforming path data string
    (continuation=True: a sequence of commands appended to a path that already has a
    current point, so the first command need not be a moveto)."""
    n = len(s)
    i = _ws(s, 0)
    good = i
    first_cmd = not continuation
    while i < n:
        c = s[i]
        if c not in LETTERS:
            break
        if first_cmd and c not in "Mm":
            break
        first_cmd = False
        i += 1
        if c in "Zz":
            i = _ws(s, i)
            good = i
            continue
        u = c.upper()
        j = _ws(s, i)
        ng = 0
        closing = False
        while True:
            e, closing = _group(s, j, u, ng == 0)
            if e < 0:
                break
            ng += 1
            good = _ws(s, e)
            if closing:
                break
            j = _cws(s, e)
        if ng == 0:
            break
        i = good
    return good


import re as _re

_AMBIG = _re.compile(r"[0-9]\.(?![0-9])")


def number_grammar_ambiguous(s):
    """SVG 1.1 accepts `1.` as a number, SVG 2 does not."""
    return _AMBIG.search(s) is not None


# --------------------------------------------------------------------------
# stored-data faults (C09)
# --------------------------------------------------------------------------

JUNK_CHARS = [
    "x", "#", "!", "?", "(", ")", "%", "&", ";", ":", "'", '"', "_", "=", "/", "\\", "b", "d", "g", "k", "n", "p",
    "E", "e", ".", "-", "+", ",", "\x00", "\x7f", "\xa0", "\xe9", "−", "\U0001f600", "١", " ", "\x0b",
    "\x1f", "﻿",    # letters that upper/lower/case-fold onto command letters or digits: long s, Kelvin sign, dotless i, dotted I,
    # fullwidth forms, mathematical alphanumerics, superscript digits
    "\u017f", "\u212a", "\u0131", "\u0130", "\uff2d", "\uff4c", "\uff11", "\U0001d40c", "\u00b2", "\u2170",
]
JUNK_STRINGS = ["NaN", "inf", "--", "..", "1e", "e5", "0x10", "1,,2", "- 1", "+", "-", ".", "1.2.3e", "z5", "none", "∞"]
# numbers at the edges of what a double can hold, and digit strings longer than any double
EXTREME_NUMBERS = [
    "1e-200", "1e200", "1e308", "-1e308", "1e-320", "5e-324", "1e-170", "-1e300", "1e160", "1e-160", "1.7976931348623157e308",
    "9" * 400, "1" + "0" * 320, "0." + "0" * 330 + "1", "-" + "7" * 310, "1e-400", "1e400", "123456789012345678901234567890",
]
FRAGMENTS = [
    "h", "H", "v", "V", "h 5", "H 5", "v 5", "V 5", "a 1", "A 1", "a 1 1", "a 1 1 0", "a 1 1 0 1", "a 1 1 0 1 1",
    "a 1 1 0 1 1 5", "t 1,1", "T 1,1", "s 1,1 2,2", "S 1,1 2,2", "z", "Z", "l", "L", "l 1", "c", "C 1,1", "c 1,1 2,2",
    "q", "q 1,1", "Q 1,1 2", "m", "M", "m 1", "M 1", "t", "T", "s", "S 1,1", "a", "A", "A1,1 0 0 1 5,5", "a1,1 0 0 1 5,5",
    "l 1,1", "L 1,1", "c 1,1 2,2 3,3", "q 1,1 2,2", "z z", "z 5", "Z 5,5", "L z", "C z", "C 1,1 z", "A 1,1 0 0 1 z",
    "h z", "V z", "h 1 2 3", "v-1-2", "t z", "M z", "m z",
    # a leading close leaves a non-empty path without a current point; inline closes then ask for the closing point
    "z L 5,5 Q 1,1 z", "z L5,5 C1,1 2,2 z", "Z l1,1 T z", "z L1,1 A 5,5 0 0 1 z", "z L 5,5 S 1,1 z", "z m 5,5 l 1,1", "Z l 3,4",
    "z z L1,1 q 1,1 z", "z L1,1 z L z", "z H5", "z L1,1 H5 V z",
    # chords, radii and controls at the edges of the double range, next to ordinary neighbours
    "M0,0 A 1 1 0 0 0 1e-200 0", "M5,5 a 1 1 0 0 0 1e-200 0", "M0,0 A 1e-200 1 0 0 0 5 5", "M0,0 a 1 1 0 0 0 5e-324 5e-324",
    "M0,0 A 1e-170 1e-170 0 0 1 1e-170 1e-170", "M1,1 A 1e200 1e200 0 0 1 2,2", "M0,0 Q 1e-200 1e-200 1e-200 0", "M0,0 l 1e-200 0 l 0 1e-200 z",
    "M0,0 C 1e300 0 0 1e300 1,1", "M1e-300,1e-300 L 2e-300,1e-300 A 1e-300 1e-300 0 1 1 1e-300 2e-300", "M0,0 T 1e-200,0 T 0,0",
    # radii and chords whose squares are subnormal or overflow while the numbers themselves are ordinary doubles
    "M0 0 A 1 1e-160 0 0 1 1e-7 0", "M0,0 A 1e-160 1 0 0 0 1 0", "M0,0 A 1e-155 1e-158 30 1 0 1e-3 1e-3", "M5,5 a 3e-162 1 0 0 1 2,2",
    # inline closes in either case after every command that takes them
    "M0,0 L1,1 A 5,5 0 0 1 Z", "M0,0 L3,0 C1,1 2,2 Z", "M0,0 L3,0 Q1,1 Z", "M0,0 L3,0 L Z", "M0,0 Q1,1 3,0 T Z", "M0,0 L3,0 S1,1 Z",
    "m1,1 l3,0 a 5,5 0 0 1 Z", "M0,0 L3,0 C1,1 Z", "M0,0 L3,0 C Z", "M0,0 L3,0 S Z", "M0,0 L3,0 Q Z",
]
