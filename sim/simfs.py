"""
Simulated disk and stream.

Only the *raw* file object and the directory are stubs. Python's own buffer
layers (io.BufferedWriter / BufferedReader / TextIOWrapper), gzip and
xml.etree run unmodified on top of them.  A file's durable content is exactly
what SimRaw.write() has accepted; whatever still sits in an unflushed or
unclosed Python-level buffer when the image is frozen is lost, as it would be
if the process were killed or the caller opened the file next.

builtins.open is wrapped while a SimDisk is installed: names under /simfs/ go
to the simulated disk, everything else to the real open().
"""
import builtins
import errno
import io
import os

PREFIX = "/simfs/"


class InjectedOSError(OSError):
    """An I/O error the simulator injected on purpose (never a bug of the machinery)."""

    injected = True


class FaultPlan:
    """Scheduler-owned decisions for one file-system run.

    write_sizes / read_sizes: cyclic lists of maximal byte counts a raw
      write / read accepts or returns (None = everything asked).
    fail_write_at: ordinal (1-based, over all raw writes of the run) at which
      write raises OSError(errno_).
    fail_close: close of a written file raises OSError.
    """

    def __init__(self, write_sizes=None, read_sizes=None, fail_write_at=None, fail_close=False, errno_=errno.ENOSPC, buffer_size=None):
        self.write_sizes = write_sizes or [None]
        self.read_sizes = read_sizes or [None]
        self.fail_write_at = fail_write_at
        self.fail_close = fail_close
        self.errno_ = errno_
        self.buffer_size = buffer_size


class SimDisk:
    def __init__(self, plan=None):
        self.files = {}
        self.plan = plan or FaultPlan()
        self.raw_writes = 0
        self.raw_reads = 0
        self.opened = []  # (name, mode)
        self.open_raws = []
        self.fired = {"short_write": 0, "short_read": 0, "write_error": 0, "close_error": 0}
        self.log = []
        self._real_open = None

    # -- install / uninstall -------------------------------------------------
    def __enter__(self):
        self._real_open = builtins.open
        disk = self

        def sim_open(file, mode="r", buffering=-1, encoding=None, errors=None, newline=None, closefd=True, opener=None):
            try:
                name = os.fspath(file)
            except TypeError:
                name = None
            if isinstance(name, bytes):
                name = name.decode("utf-8", "surrogateescape")
            if isinstance(name, str) and name.startswith(PREFIX):
                return disk.open(name, mode, buffering, encoding, errors, newline)
            return disk._real_open(file, mode, buffering, encoding, errors, newline, closefd, opener)

        builtins.open = sim_open
        return self

    def __exit__(self, *a):
        builtins.open = self._real_open
        return False

    # -- open ----------------------------------------------------------------
    def open(self, name, mode="r", buffering=-1, encoding=None, errors=None, newline=None):
        binary = "b" in mode
        writing = any(c in mode for c in "wax+")
        reading = "r" in mode or "+" in mode
        if "w" in mode:
            self.files[name] = bytearray()
        elif "x" in mode:
            if name in self.files:
                raise FileExistsError(errno.EEXIST, "exists", name)
            self.files[name] = bytearray()
        elif "a" in mode:
            self.files.setdefault(name, bytearray())
        elif name not in self.files:
            raise FileNotFoundError(errno.ENOENT, "No such file or directory", name)
        raw = SimRaw(self, name, readable=reading and not ("w" in mode and "+" not in mode), writable=writing, append="a" in mode)
        self.opened.append((name, mode))
        self.open_raws.append(raw)
        self.log.append(("open", name, mode))
        if buffering == 0:
            if not binary:
                raise ValueError("can't have unbuffered text I/O")
            return raw
        size = self.plan.buffer_size or (buffering if buffering and buffering > 1 else io.DEFAULT_BUFFER_SIZE)
        if writing and reading:
            buf = io.BufferedRandom(raw, size)
        elif writing:
            buf = io.BufferedWriter(raw, size)
        else:
            buf = io.BufferedReader(raw, size)
        if binary:
            return buf
        text = io.TextIOWrapper(buf, encoding or "utf-8", errors, newline, line_buffering=(buffering == 1))
        try:
            text.mode = mode
        except AttributeError:
            pass
        return text

    # -- durable image -------------------------------------------------------
    def image(self, name):
        """Bytes that have reached the disk so far (no flushing on anyone's behalf)."""
        return bytes(self.files.get(name, b""))

    def put(self, name, data):
        self.files[name] = bytearray(data)


class SimRaw(io.RawIOBase):
    def __init__(self, disk, name, readable, writable, append=False):
        io.RawIOBase.__init__(self)
        self.disk = disk
        self.name = name
        self._readable = readable
        self._writable = writable
        self.pos = len(disk.files[name]) if append else 0
        self.wrote = False

    def readable(self):
        return self._readable

    def writable(self):
        return self._writable

    def seekable(self):
        return True

    def seek(self, offset, whence=0):
        if whence == 0:
            self.pos = offset
        elif whence == 1:
            self.pos += offset
        else:
            self.pos = len(self.disk.files[self.name]) + offset
        return self.pos

    def tell(self):
        return self.pos

    def fileno(self):
        raise OSError("simulated file has no descriptor")

    def isatty(self):
        return False

    def readinto(self, b):
        d = self.disk
        plan = d.plan
        lim = plan.read_sizes[d.raw_reads % len(plan.read_sizes)]
        d.raw_reads += 1
        data = d.files[self.name]
        n = min(len(b), len(data) - self.pos)
        if n < 0:
            n = 0
        if lim is not None and n > lim:
            n = max(1, lim)
            d.fired["short_read"] += 1
        b[:n] = data[self.pos : self.pos + n]
        self.pos += n
        d.log.append(("read", self.name, n))
        return n

    def write(self, b):
        d = self.disk
        plan = d.plan
        d.raw_writes += 1
        if plan.fail_write_at is not None and d.raw_writes == plan.fail_write_at:
            d.fired["write_error"] += 1
            d.log.append(("write-error", self.name, len(b)))
            raise InjectedOSError(plan.errno_, os.strerror(plan.errno_), self.name)
        mv = memoryview(b).cast("B")
        n = len(mv)
        lim = plan.write_sizes[(d.raw_writes - 1) % len(plan.write_sizes)]
        if lim is not None and n > lim:
            n = max(1, lim)
            d.fired["short_write"] += 1
        data = d.files[self.name]
        end = self.pos + n
        if self.pos > len(data):
            data.extend(b"\0" * (self.pos - len(data)))
        data[self.pos : end] = mv[:n].tobytes()
        self.pos = end
        self.wrote = True
        d.log.append(("write", self.name, n))
        return n

    def truncate(self, size=None):
        if size is None:
            size = self.pos
        del self.disk.files[self.name][size:]
        return size

    def close(self):
        if self.closed:
            return
        d = self.disk
        io.RawIOBase.close(self)
        d.log.append(("close", self.name))
        if self._writable and d.plan.fail_close:
            d.fired["close_error"] += 1
            raise InjectedOSError(errno.EIO, os.strerror(errno.EIO), self.name)


class SimStream:
    """A read-only stream whose read(n) returns between 1 and n units as the
    schedule says (bytes or text). No seek, no name: exactly what iterparse needs."""

    def __init__(self, data, sizes, counter=None):
        self.data = data
        self.pos = 0
        self.sizes = sizes or [None]
        self.calls = 0
        self.counter = counter
        self.split_multibyte = 0

    def read(self, n=-1):
        lim = self.sizes[self.calls % len(self.sizes)]
        self.calls += 1
        remaining = len(self.data) - self.pos
        if n is None or n < 0:
            n = remaining
        k = min(n, remaining)
        if lim is not None and k > lim:
            k = max(1, lim)
            if self.counter is not None:
                self.counter["short_read"] = self.counter.get("short_read", 0) + 1
        chunk = self.data[self.pos : self.pos + k]
        self.pos += k
        if isinstance(chunk, (bytes, bytearray)) and self.pos < len(self.data) and (self.data[self.pos] & 0xC0) == 0x80:
            self.split_multibyte += 1
            if self.counter is not None:
                self.counter["split_multibyte"] = self.counter.get("split_multibyte", 0) + 1
        return chunk

    def close(self):
        pass
