"""
C18 - copies and derived objects share no mutable state with their source.

Two owners: A holds x (and the other operands), B holds the derived object y.
The scheduler interleaves public mutations on either side; after every step the
untouched side must be value-identical to what it was.  A structural probe of
the two public object graphs places the first mutation on a node reachable from
both sides, if there is one.  DESIGN.md 5.5.
"""
import copy as _copy

import io

from sim import core, gen_doc as gd, gen_path as gp, observe as ob

PROPERTY = "C18"
LEVEL = "exploration"
QUICK_RUNS = 120000
THOROUGH_RUNS = 1500000
RULE = (
    "seeded two-owner histories: an object of a scheduler-chosen kind (Point, Matrix, Color, Length, each segment kind, "
    "Path, Subpath view, Rect plain/rounded, Circle, Ellipse, SimpleLine, Polyline, Polygon, Group flat/nested, Text, "
    "Image, SVG) with non-trivial transform and paint; one derivation (copy, constructor-from-object, x*M, x*'str', "
    "abs, Path(x), Path(subpath), Group(x), +, ~, A*B); then up to 6 public mutations on either owner (in-place "
    "transform, reify, point edits, list edits, paint edits, transform edits, set(), child edits). Oracles: value at "
    "derivation, operands untouched by non-in-place operators, the unmutated owner unchanged after every mutation "
    "(snapshots over public attributes and == against a frozen deep copy). distinct = distinct (kind, derivation, "
    "first mutation, side) cells; non-trivial = at least one mutation was applied and both sides re-observed."
)
ASSUMPTIONS = [
    "sharing that cannot be observed through the public mutations listed in the property is not an alarm",
    "value-at-derivation for x*M and abs(x) is judged against copy(x) followed by the in-place form (differential within the library)",
]

MATS = ["scale(2)", "translate(3,-4)", "rotate(30)", "scale(-1,1)", "scale(2,0.5)", "matrix(1,0.5,-0.3,2,5,6)", "rotate(90) translate(10,0)"]
# multipliers of the derivation x*M also include the identity in its spellings: "nothing to do" shortcuts
# are where an operator is tempted to hand back its operand
DERIV_MATS = MATS + ["", "scale(1)", "rotate(0)", "translate(0,0)", "matrix(1,0,0,1,0,0)"]
COLORS = ["red", "#123456", "rgb(10,20,30)", "blue", "#abc", "none", None, "#00ff0080"]

T_MUTS = ["imul", "imul_str", "xf_post_scale", "xf_pre_translate", "xf_attr", "xf_reset", "xf_setitem"]
G_MUTS = ["fill_red", "fill_opacity", "stroke_green", "stroke_opacity", "sw", "fill_rebind", "stroke_rebind", "fill_value"]
E_MUTS = ["set", "values_item", "id"]
PATH_MUTS = ["setitem_str", "insert_str", "slice_del", "reify", "seg_end_x", "seg_start_y", "seg_ctrl", "seg_imul", "append", "insert", "setitem", "delitem", "iadd_str", "reverse", "seg_end_rebind", "subpath_imul", "subpath_reverse", "subpath_seg"]
WARM = ["d", "bbox", "length", "count_subpaths", "subpath", "eq", "segments", "repr"]
SHAPE_MUTS = ["reify", "attr", "attr_inplace"]
POLY_MUTS = ["pt_x", "pts_append", "pts_del", "pt_imul", "pt_rebind", "pts_slice"]
GROUP_MUTS = ["g_append", "g_del", "g_child_imul", "g_child_fill", "g_child_attr", "g_child_reify", "g_child_set", "g_child_seg", "g_nested"]
SEG_MUTS = ["s_end_x", "s_start_y", "s_imul", "s_reverse", "s_ctrl", "s_end_rebind"]

KIND_TABLE = {
    # kind: (derivations, mutation names)
    "Point": (["copy", "mul", "mul_str", "add", "sub", "radd_zero", "sum_one"], ["p_x", "p_y", "p_imul", "p_iadd", "p_setitem", "p_isub"]),
    "Matrix": (["copy", "mulmat", "matmul", "invert", "mul_str"], ["m_post_scale", "m_pre_rotate", "m_a", "m_imul", "m_inverse", "m_reset", "m_setitem", "m_post_translate"]),
    "Color": (["copy"], ["c_red", "c_opacity", "c_value", "c_alpha", "c_blue"]),
    "Length": (["copy", "add", "mul_num", "neg", "mul_len", "sub", "div_num"], ["l_imul", "l_iadd", "l_amount", "l_units"]),
    "Move": (["copy", "mul", "mul_str", "add_seg", "add_str"], SEG_MUTS),
    "Line": (["copy", "mul", "mul_str", "add_seg", "add_str"], SEG_MUTS),
    "Close": (["copy", "mul", "mul_str", "add_seg"], SEG_MUTS),
    "Quad": (["copy", "mul", "mul_str", "add_seg", "add_str"], SEG_MUTS),
    "Cubic": (["copy", "mul", "mul_str", "add_seg", "add_str"], SEG_MUTS),
    "Arc": (["copy", "mul", "mul_str", "add_seg", "add_str"], SEG_MUTS),
    "Path": (["matmul_shape", "copy", "mul", "mul_str", "abs", "PathOf", "add_str", "add_path", "add_seg", "radd_seg", "add_shape", "radd_str"], T_MUTS + G_MUTS + E_MUTS + PATH_MUTS),
    "Subpath": (["copy", "PathOf", "mul", "mul_str", "add_str", "add_seg"], ["sub_imul", "sub_seg_end_x", "sub_reverse", "sub_seg_imul", "sub_iadd_str", "sub_setitem", "sub_delitem", "back_imul", "back_seg_end_x", "back_reify", "back_fill_red"]),
    "Rect": (["matmul_shape", "copy", "ctor", "mul", "mul_str", "abs", "PathOf", "add_shape"], T_MUTS + G_MUTS + E_MUTS + SHAPE_MUTS),
    "RectR": (["matmul_shape", "copy", "ctor", "mul", "mul_str", "abs", "PathOf"], T_MUTS + G_MUTS + E_MUTS + SHAPE_MUTS),
    "Circle": (["matmul_shape", "copy", "ctor", "mul", "mul_str", "abs", "PathOf", "add_shape"], T_MUTS + G_MUTS + E_MUTS + SHAPE_MUTS),
    "Ellipse": (["matmul_shape", "copy", "ctor", "mul", "mul_str", "abs", "PathOf"], T_MUTS + G_MUTS + E_MUTS + SHAPE_MUTS),
    "SimpleLine": (["matmul_shape", "copy", "ctor", "mul", "mul_str", "abs", "PathOf"], T_MUTS + G_MUTS + E_MUTS + SHAPE_MUTS),
    "Polyline": (["matmul_shape", "copy", "ctor", "mul", "mul_str", "abs", "PathOf"], T_MUTS + G_MUTS + E_MUTS + SHAPE_MUTS + POLY_MUTS),
    "Polygon": (["matmul_shape", "copy", "ctor", "mul", "mul_str", "abs", "PathOf", "add_shape"], T_MUTS + G_MUTS + E_MUTS + SHAPE_MUTS + POLY_MUTS),
    "Group": (["copy", "GroupOf", "mul", "mul_str", "abs"], T_MUTS + E_MUTS + GROUP_MUTS),
    "GroupNested": (["copy", "GroupOf", "mul", "mul_str", "abs"], T_MUTS + E_MUTS + GROUP_MUTS),
    "Text": (["copy", "ctor", "mul", "mul_str", "abs"], T_MUTS + G_MUTS + E_MUTS + ["reify", "t_text", "t_x", "t_path_imul", "t_path_seg", "t_path_append", "attr_inplace"]),
    # elements as SVG.parse returns them (their values hold the nested 'attributes' dict; groups may hold use elements)
    "ParsedShape": (["copy", "mul", "mul_str", "abs", "PathOf"], T_MUTS + G_MUTS + E_MUTS + ["reify", "attr", "nested_attr", "attr_inplace"]),
    "ParsedGroup": (["copy", "GroupOf", "mul", "mul_str", "abs"], T_MUTS + E_MUTS + GROUP_MUTS + ["nested_attr", "g_child_nested_attr"]),
    "Image": (["copy", "ctor", "mul", "mul_str", "abs"], T_MUTS + G_MUTS + E_MUTS + ["i_url", "i_x", "i_viewbox", "attr_inplace"]),
}
KINDS = sorted(KIND_TABLE)
# derivations whose result the property declares independent of the source; for the others
# (+, -, ~, unary minus) it only states that evaluating them leaves the operands untouched
INDEPENDENT = {"copy", "ctor", "mul", "mul_str", "abs", "PathOf", "GroupOf", "mulmat", "matmul"}


# --------------------------------------------------------------------------
# generation (pure function of the seed; never touches the library)
# --------------------------------------------------------------------------


def _n(ch, lo=-200, hi=200):
    return ch.int(lo * 10, hi * 10) / 10.0


def _paint(ch):
    # a translation with units stays a Length inside the matrix until it is rendered
    return {"fill": ch.choice(COLORS), "stroke": ch.choice(COLORS), "sw": ch.choice([None, 1, 2.5, 0.5]), "tr": ch.choice(MATS + ["", "", "translate(1cm, 2mm)", "translate(10%, 5%)"]), "id": ch.choice([None, "a1", "obj"])}


def _shape_spec(ch, kind):
    spec = {"kind": kind, "nums": [_n(ch) for _ in range(12)], "pos": [abs(_n(ch)) + 0.5 for _ in range(4)]}
    if kind in ("Rect", "RectR", "Circle", "Ellipse", "SimpleLine", "Text", "Image") and ch.coin(0.25):
        # geometry stated with units stays a Length object until the element is rendered
        spec["unit"] = ch.choice(["in", "mm", "%", "cm", "pt"])
    if kind in ("Circle", "Ellipse") and ch.coin(0.08):
        spec["pos"][0] = 0.0  # a degenerate (zero radius) shape is still an element
    if kind in ("ParsedShape", "ParsedGroup"):
        spec["doc"] = gd.gen_doc(ch, max_elems=ch.int(4, 10), max_depth=2, use_heavy=True, style_sheet=False)
        spec["pick"] = ch.int(0, 50)
        spec["reify"] = ch.coin(0.5)
    spec.update(_paint(ch))
    if kind in ("Path", "Subpath"):
        cmds = gp.gen_cmds(ch, ch.int(2, 7), mag=ch.choice([1.0, 100.0]), allow_zc=False, arc_zero=False)
        if kind == "Subpath":
            # several subpaths
            cmds += gp.gen_cmds(ch, ch.int(2, 4), mag=100.0, allow_zc=False, arc_zero=False)
            if ch.coin(0.5):
                cmds.append({"c": "z", "g": [], "zc": 0})
            cmds += gp.gen_cmds(ch, ch.int(2, 3), mag=100.0, allow_zc=False, arc_zero=False)
            spec["index"] = ch.int(0, 2)
        spec["d"] = gp.render(cmds, 0)
    return spec


def _obj_spec(ch, kind):
    if kind in ("Group", "GroupNested", "SVG"):
        spec = {"kind": kind, "tr": ch.choice(MATS + [""]), "id": ch.choice([None, "g1"])}
        kids = []
        for _ in range(ch.int(1, 4)):
            ck = ch.choice(["Path", "Rect", "Circle", "Polyline", "Polygon", "Ellipse", "SimpleLine", "Text", "RectR", "Image", "Image"])
            kids.append(_shape_spec(ch, ck))
        if kind == "GroupNested":
            inner = {"kind": "Group", "tr": ch.choice(MATS), "id": None, "kids": [_shape_spec(ch, ch.choice(["Path", "Rect", "Polygon"])) for _ in range(ch.int(1, 2))]}
            kids.insert(ch.int(0, len(kids)), inner)
        spec["kids"] = kids
        if kind == "SVG":
            spec["viewbox"] = ch.choice([None, "0 0 100 100", "10 10 50 80"])
        return spec
    if kind in ("Point", "Matrix", "Color", "Length", "Move", "Line", "Close", "Quad", "Cubic", "Arc"):
        return {"kind": kind, "nums": [_n(ch) for _ in range(12)], "pos": [abs(_n(ch)) + 0.5 for _ in range(4)], "color": ch.choice([c for c in COLORS if c]), "units": ch.choice(["px", "mm", "in", "%", "", "pt"]), "tr": ch.choice(MATS)}
    return _shape_spec(ch, kind)


def generate(seed, index, tier):
    ch = core.Chooser(seed)
    kind = KINDS[index % len(KINDS)]
    derivs, muts = KIND_TABLE[kind]
    deriv = derivs[(index // len(KINDS)) % len(derivs)]
    case = {"kind": kind, "spec": _obj_spec(ch, kind), "deriv": deriv, "m": ch.choice(DERIV_MATS)}
    if case["spec"].get("unit") and deriv in ("PathOf", "add_shape", "matmul_shape", "abs"):
        # the outline (and reify) of a shape whose geometry still has units puts Length objects into Points,
        # which the Point class documents as outside its purpose: not derived from before it is rendered
        del case["spec"]["unit"]
    # second operand where the derivation takes one
    if deriv in ("add", "sub", "mulmat", "matmul", "mul_len"):
        case["spec2"] = _obj_spec(ch, kind)
        if deriv == "mul_len" and ch.coin(0.6):
            case["spec"]["units"] = "%"
    elif deriv in ("add_seg", "radd_seg"):
        case["spec2"] = _obj_spec(ch, ch.choice(["Line", "Quad", "Cubic", "Arc", "Move", "Close"]))
    elif deriv == "add_path":
        case["spec2"] = _obj_spec(ch, "Path")
    elif deriv == "add_shape":
        case["spec2"] = _obj_spec(ch, ch.choice(["Rect", "Circle", "Polygon", "Path", "SimpleLine"]))
    elif deriv in ("add_str", "radd_str"):
        case["str2"] = gp.render(gp.gen_cmds(ch, ch.int(1, 3), mag=100.0, leading_move=deriv == "radd_str", allow_zc=False, arc_zero=False), 0)
    case["twice"] = bool(deriv in INDEPENDENT and ch.coin(0.25))
    # observers that touched the source before it is derived from (lazily filled caches), or none at all
    case["warm"] = [ch.choice(WARM) for _ in range(ch.int(1, 3))] if ch.coin(0.5) else []
    # histories that only ever mutate the result: the source can then be compared with an untouched twin
    case["only_b"] = bool(deriv in INDEPENDENT and ch.coin(0.35))
    nm = ch.int(1, 6)
    ms = []
    bkind = result_kind(kind, deriv)
    for _ in range(nm):
        side = ch.choice(["A", "B", "B", "A", "A2"]) if "spec2" in case else ch.choice(["A", "B"])
        if case["only_b"]:
            side = "B"
        tk = kind if side == "A" else (case["spec2"]["kind"] if side == "A2" else bkind)
        names = KIND_TABLE.get(tk, (None, []))[1]
        if not names:
            continue
        ms.append([side, ch.choice(names), ch.int(0, 1000), _n(ch)])
    case["muts"] = ms
    return case


def result_kind(kind, deriv):
    if deriv in ("PathOf", "add_seg", "radd_seg", "add_str", "radd_str", "add_path", "add_shape"):
        return "Subpath" if (kind == "Subpath" and deriv in ("add_str", "add_seg")) else "Path"
    if deriv == "GroupOf":
        return "Group"
    return kind


# --------------------------------------------------------------------------
# building objects
# --------------------------------------------------------------------------


def _apply_paint(se, o, spec):
    if spec.get("tr"):
        o *= spec["tr"]
    if spec.get("fill") is not None:
        o.fill = se.Color(spec["fill"])
    if spec.get("stroke") is not None:
        o.stroke = se.Color(spec["stroke"])
    if spec.get("sw") is not None:
        o.stroke_width = spec["sw"]
    if spec.get("id") is not None:
        o.id = spec["id"]
    o.values["data-k"] = "v0"
    return o


def build(se, spec):
    k = spec["kind"]
    n = spec.get("nums", [])
    p = spec.get("pos", [])
    if k == "Point":
        return se.Point(n[0], n[1])
    if k == "Matrix":
        return se.Matrix(spec["tr"]) * se.Matrix.translate(n[0], n[1])
    if k == "Color":
        c = se.Color(spec["color"])
        return c
    if k == "Length":
        return se.Length("%s%s" % (n[0], spec["units"]))
    if k == "Move":
        return se.Move(se.Point(n[0], n[1]), se.Point(n[2], n[3]))
    if k == "Line":
        return se.Line(se.Point(n[0], n[1]), se.Point(n[2], n[3]))
    if k == "Close":
        return se.Close(se.Point(n[0], n[1]), se.Point(n[2], n[3]))
    if k == "Quad":
        return se.QuadraticBezier(se.Point(n[0], n[1]), se.Point(n[2], n[3]), se.Point(n[4], n[5]))
    if k == "Cubic":
        return se.CubicBezier(se.Point(n[0], n[1]), se.Point(n[2], n[3]), se.Point(n[4], n[5]), se.Point(n[6], n[7]))
    if k == "Arc":
        return se.Arc(se.Point(n[0], n[1]), p[0] + 300, p[1] + 300, n[2], int(n[3]) % 2, int(n[4]) % 2, se.Point(n[5], n[6]))
    if k == "Path":
        return _apply_paint(se, se.Path(spec["d"]), spec)
    if k == "Subpath":
        path = _apply_paint(se, se.Path(spec["d"]), spec)
        cnt = path.count_subpaths()
        return path.subpath(spec["index"] % cnt)
    u = spec.get("unit")
    if u:
        # the same numbers, spelled with a unit
        n = ["%s%s" % (abs(v) % 50 + 1, u) for v in n]
        p = ["%s%s" % (abs(v) % 50 + 1, u) for v in p]
    if k in ("ParsedShape", "ParsedGroup"):
        svg = se.SVG.parse(io.StringIO(gd.serialise(spec["doc"])), reify=spec["reify"])
        want = se.Shape if k == "ParsedShape" else se.Group
        cands = [e for e in svg.elements() if isinstance(e, want) and not isinstance(e, se.SVG)]
        if k == "ParsedGroup":
            withuse = [e for e in cands if any(isinstance(c, se.Use) for c in e)]
            cands = withuse or cands
        if not cands:
            raise ValueError("nothing to pick")
        return cands[spec["pick"] % len(cands)]
    if k == "Rect":
        return _apply_paint(se, se.Rect(n[0], n[1], p[0], p[1]), spec)
    if k == "RectR":
        if u:
            # (with units the numbers are spelled as text)
            # (radii small enough never to be clamped to half the side: the clamp is recomputed by every copy and
            # agrees with itself only to the last bit or two)
            # (and not percentages: a percentage radius of an unrendered rect is re-applied to the width by every
            # copy - 0.2% of a 20% width becomes 4%, its copy 10% - Length arithmetic on percentages, C12's subject)
            ru = "mm" if u == "%" else u
            return _apply_paint(se, se.Rect(n[0], n[1], p[0], p[1], "0.2" + ru, "0.3" + ru), spec)
        return _apply_paint(se, se.Rect(n[0], n[1], p[0] + 10, p[1] + 10, 2, 3), spec)
    if k == "Circle":
        return _apply_paint(se, se.Circle(n[0], n[1], p[0]), spec)
    if k == "Ellipse":
        return _apply_paint(se, se.Ellipse(n[0], n[1], p[0], p[1]), spec)
    if k == "SimpleLine":
        return _apply_paint(se, se.SimpleLine(n[0], n[1], n[2], n[3]), spec)
    if k == "Polyline":
        return _apply_paint(se, se.Polyline(*n[:8]), spec)
    if k == "Polygon":
        return _apply_paint(se, se.Polygon(*n[:8]), spec)
    if k == "Text":
        t = se.Text("hello", x=n[0], y=n[1])
        if u:
            # font size and line height that stay lengths (em, %: nothing resolves them before rendering)
            t.font_size = se.Length("2em" if u in ("in", "mm") else "120%")
            t.line_height = se.Length("3em")
        if int(abs(spec["nums"][2])) % 2 == 0:
            # the optional outline of the text (bbox() looks at it)
            t.path = se.Path("M%s,%s L%s,%s Q%s,%s %s,%s z" % tuple(spec["nums"][:8]))
        return _apply_paint(se, t, spec)
    if k == "Image":
        kw = {}
        if int(abs(spec["nums"][5])) % 2 == 0:
            kw["viewBox"] = "0 0 10 20"
        i = se.Image(href="a.png", x=n[0], y=n[1], width=p[0], height=p[1], **kw)
        return _apply_paint(se, i, spec)
    if k in ("Group", "GroupNested", "SVG"):
        if k == "SVG":
            kw = {"width": 200, "height": 100}
            if spec.get("viewbox"):
                kw["viewBox"] = spec["viewbox"]
            g = se.SVG(**kw)
        else:
            g = se.Group()
        for ks in spec["kids"]:
            g.append(build(se, ks))
        if spec.get("tr"):
            g *= spec["tr"]
        if spec.get("id"):
            g.id = spec["id"]
        g.values["data-k"] = "g0"
        return g
    raise ValueError(k)


# --------------------------------------------------------------------------
# snapshots over public attributes
# --------------------------------------------------------------------------

_GEOM = {
    "Rect": ["x", "y", "width", "height", "rx", "ry"],
    "Circle": ["cx", "cy", "rx", "ry"],
    "Ellipse": ["cx", "cy", "rx", "ry"],
    "SimpleLine": ["x1", "y1", "x2", "y2"],
    "Text": ["path", "text", "x", "y", "dx", "dy", "width", "height", "anchor", "font_style", "font_variant", "font_weight", "font_stretch", "font_size", "line_height", "font_family"],
    "Image": ["url", "data", "x", "y", "width", "height", "preserve_aspect_ratio", "viewbox"],
    "SVG": ["x", "y", "width", "height", "viewbox"],
}


def snap(se, o, depth=0):
    if depth > 12:
        return "<deep>"
    if o is None or isinstance(o, (bool, int, float, str)):
        return o
    if isinstance(o, se.Length):
        return ("Len", o.amount, o.units)
    if isinstance(o, se.Point):
        return ("Pt", snap(se, o.x, depth + 1), snap(se, o.y, depth + 1))
    if isinstance(o, se.Matrix):
        return ("Mx", o.a, o.b, o.c, o.d, snap(se, o.e, depth + 1), snap(se, o.f, depth + 1))
    if isinstance(o, se.Color):
        return ("Col", o.value)
    if isinstance(o, se.Viewbox):
        return ("Vb", o.x, o.y, o.width, o.height, o.preserve_aspect_ratio)
    if isinstance(o, se.PathSegment):
        return (type(o).__name__, o.relative, getattr(o, "smooth", None), [snap(se, p, depth + 1) if not isinstance(p, (int, float)) else p for p in _seg_fields(se, o)])
    if isinstance(o, se.Subpath):
        return ("Sub", [snap(se, s, depth + 1) for s in o])
    if isinstance(o, dict):
        return ("dict", sorted((str(k), snap(se, v, depth + 1)) for k, v in o.items()))
    if isinstance(o, (list, tuple)) and not isinstance(o, se.SVGElement):
        return [snap(se, i, depth + 1) for i in o]
    d = {"cls": type(o).__name__}
    if isinstance(o, se.SVGElement):
        d["id"] = o.id
        d["values"] = snap(se, o.values, depth + 1)
    if isinstance(o, se.Transformable):
        d["transform"] = snap(se, o.transform, depth + 1)
        d["apply"] = o.apply
    if isinstance(o, se.GraphicObject):
        d["fill"] = snap(se, o.fill, depth + 1)
        d["stroke"] = snap(se, o.stroke, depth + 1)
        d["stroke_width"] = snap(se, o.stroke_width, depth + 1)
    for attr in _GEOM.get(type(o).__name__, []):
        d[attr] = snap(se, getattr(o, attr, None), depth + 1)
    if isinstance(o, se.Path):
        d["segments"] = [snap(se, s, depth + 1) for s in o]
    elif isinstance(o, se._Polyshape):
        d["points"] = [snap(se, p, depth + 1) for p in o.points]
    elif isinstance(o, list):
        d["children"] = [snap(se, c, depth + 1) for c in o]
    if len(d) == 1:
        d["repr"] = repr(o)
    return d


def _seg_fields(se, s):
    k = type(s).__name__
    if k in ("Move", "Line", "Close"):
        return [s.start, s.end]
    if k == "QuadraticBezier":
        return [s.start, s.control, s.end]
    if k == "CubicBezier":
        return [s.start, s.control1, s.control2, s.end]
    if k == "Arc":
        return [s.start, s.end, s.center, s.prx, s.pry, s.sweep]
    return []


def side_snap(se, roots):
    out = []
    for r in roots:
        out.append(snap(se, r))
        if isinstance(r, se.Subpath):
            out.append(snap(se, r._path))
    return out


def diff(a, b, path="", tol=0.0):
    """First difference between two snapshots, or None."""
    if type(a) != type(b) and not (isinstance(a, (int, float)) and isinstance(b, (int, float))):
        return "%s: %r != %r" % (path, _brief(a), _brief(b))
    if isinstance(a, dict):
        if sorted(a) != sorted(b):
            return "%s: keys %r != %r" % (path, sorted(a), sorted(b))
        for k in sorted(a):
            r = diff(a[k], b[k], path + "." + str(k), tol)
            if r:
                return r
        return None
    if isinstance(a, (list, tuple)):
        if len(a) != len(b):
            return "%s: length %d != %d" % (path, len(a), len(b))
        for i, (x, y) in enumerate(zip(a, b)):
            r = diff(x, y, "%s[%d]" % (path, i), tol)
            if r:
                return r
        return None
    if isinstance(a, float) or isinstance(b, float):
        if a == b or (a != a and b != b):
            return None
        if tol and isinstance(a, (int, float)) and isinstance(b, (int, float)) and abs(a - b) <= tol * max(1.0, abs(a), abs(b)):
            return None
        return "%s: %r != %r" % (path, a, b)
    if a != b:
        return "%s: %r != %r" % (path, _brief(a), _brief(b))
    return None


def _brief(v):
    s = repr(v)
    return s if len(s) < 120 else s[:117] + "..."


# --------------------------------------------------------------------------
# structural probe over the public object graph
# --------------------------------------------------------------------------


def public_nodes(se, root, limit=400):
    """id -> (access path, node) for mutable library objects reachable through public accessors."""
    out = {}
    stack = [("", root, 0)]
    while stack and len(out) < limit:
        path, o, depth = stack.pop()
        if o is None or isinstance(o, (bool, int, float, str)) or depth > 8:
            continue
        if isinstance(o, (se.Point, se.Matrix, se.Color, se.Length, se.PathSegment, se.SVGElement, se.Viewbox)) or isinstance(o, dict):
            if id(o) in out:
                continue
            out[id(o)] = (path, o)
        if isinstance(o, se.Matrix):
            for name in ("e", "f"):
                stack.append((path + "." + name, getattr(o, name), depth + 1))
        elif isinstance(o, se.PathSegment):
            for name in ("start", "end", "control", "control1", "control2", "center", "prx", "pry"):
                if hasattr(o, name):
                    stack.append((path + "." + name, getattr(o, name), depth + 1))
        elif isinstance(o, se.Subpath):
            for i, s in enumerate(o):
                stack.append(("%s[%d]" % (path, i), s, depth + 1))
        elif isinstance(o, se.SVGElement):
            for name in ("transform", "fill", "stroke", "values", "viewbox", "path"):
                if hasattr(o, name):
                    stack.append((path + "." + name, getattr(o, name), depth + 1))
            if isinstance(o, se.Path):
                for i, s in enumerate(o):
                    stack.append(("%s[%d]" % (path, i), s, depth + 1))
            elif isinstance(o, se._Polyshape):
                for i, p in enumerate(o.points):
                    stack.append(("%s.points[%d]" % (path, i), p, depth + 1))
            elif isinstance(o, list):
                for i, c in enumerate(o):
                    stack.append(("%s[%d]" % (path, i), c, depth + 1))
        elif isinstance(o, dict):
            for k, v in o.items():
                if isinstance(v, dict):
                    stack.append(("%s[%r]" % (path, k), v, depth + 1))
    return out


def poke(se, node):
    """A public mutation of one node, by type. Returns a label or None."""
    if isinstance(node, se.Point):
        node.x = node.x + 1.5 if isinstance(node.x, (int, float)) else 1.5
        return "point.x"
    if isinstance(node, se.Matrix):
        node.post_translate(3, 4)
        return "matrix.post_translate"
    if isinstance(node, se.Color):
        if node.value is None:
            return None
        node.red = (node.red + 64) % 256
        return "color.red"
    if isinstance(node, se.Length):
        node *= 2
        return "length.imul"
    if isinstance(node, se.PathSegment):
        node *= se.Matrix("translate(7,9)")
        return "segment.imul"
    if isinstance(node, dict):
        node["verif-probe"] = "1"
        return "dict.setitem"
    if isinstance(node, se.Transformable):
        node *= "translate(1,2)"
        return "element.imul"
    return None


# --------------------------------------------------------------------------
# derivations
# --------------------------------------------------------------------------


def derive(se, case, x, x2):
    """Returns (y, reference-or-None). reference: a snapshot y must equal (oracle a)."""
    d = case["deriv"]
    M = se.Matrix(case["m"])
    k = case["kind"]
    if d == "copy":
        return _copy.copy(x), ("same", None)
    if d == "ctor":
        return type(x)(x), ("same", None)
    if d == "GroupOf":
        return se.Group(x), ("same-children", None)
    if d == "mul":
        if k == "Matrix":
            return x * M, (None, None)
        z = _copy.copy(x)
        z *= M
        return x * M, ("snap", z)
    if d == "mul_str":
        z = _copy.copy(x)
        z *= case["m"]
        return x * case["m"], ("snap", z)
    if d == "abs":
        z = _copy.copy(x)
        z.reify()
        return abs(x), ("snap", z)
    if d == "PathOf":
        y = se.Path(x)  # first: nothing may have asked x for its outline before (a cold source)
        if isinstance(x, se.Subpath):
            want = {"segments": [snap(se, s) for s in x], "of": x._path}
        else:
            want = {"segments": [snap(se, s) for s in x.segments(transformed=False)], "of": x}
        return y, ("path-of", want)
    if d == "add":
        return x + x2, (None, None)
    if d == "sub":
        return x - x2, (None, None)
    if d == "mul_num":
        return x * 2, (None, None)
    if d == "div_num":
        return x / 2, (None, None)
    if d == "mul_len":
        return x * x2, (None, None)
    if d == "matmul_shape":
        return x @ M, (None, None)
    if d == "radd_zero":
        return 0 + x, (None, None)
    if d == "sum_one":
        return sum([x]), (None, None)
    if d == "neg":
        return -x, (None, None)
    if d in ("mulmat",):
        return x * x2, (None, None)
    if d == "matmul":
        return x @ x2, (None, None)
    if d == "invert":
        return ~x, (None, None)
    if d in ("add_seg", "add_path", "add_shape"):
        return x + x2, (None, None)
    if d == "radd_seg":
        return x2 + x, (None, None)
    if d == "add_str":
        return x + case["str2"], (None, None)
    if d == "radd_str":
        return case["str2"] + x, (None, None)
    raise ValueError(d)


# --------------------------------------------------------------------------
# mutations (public API only)
# --------------------------------------------------------------------------


def _idx(k, n):
    return k % n if n else 0


def mutate(se, o, name, k, v):
    """Apply mutation `name` to o. Returns True if something was mutated."""
    Mx = se.Matrix(MATS[k % len(MATS)])
    # ---- value types
    if name == "p_x":
        o.x = v
    elif name == "p_y":
        o.y = v
    elif name == "p_imul":
        o *= Mx
    elif name == "p_iadd":
        o += (v, 1)
    elif name == "p_isub":
        o -= (v, 1)
    elif name == "p_setitem":
        o[k % 2] = v
    elif name == "m_post_scale":
        o.post_scale(2, 3)
    elif name == "m_post_translate":
        o.post_translate(v, 1)
    elif name == "m_pre_rotate":
        o.pre_rotate(0.5)
    elif name == "m_a":
        o.a = v
    elif name == "m_imul":
        o *= Mx
    elif name == "m_inverse":
        o.inverse()
    elif name == "m_reset":
        o.reset()
    elif name == "m_setitem":
        o[k % 6] = v
    elif name == "c_red":
        o.red = k % 256
    elif name == "c_blue":
        o.blue = k % 256
    elif name == "c_opacity":
        o.opacity = (k % 10) / 10.0
    elif name == "c_alpha":
        o.alpha = k % 256
    elif name == "c_value":
        o.value = (k * 2654435761) & 0xFFFFFFFF
    elif name == "l_imul":
        o *= 3
    elif name == "l_iadd":
        o += se.Length(5, o.units)
    elif name == "l_amount":
        o.amount = v
    elif name == "l_units":
        o.units = "cm"
    # ---- segments
    elif name in ("s_end_x", "s_start_y", "s_imul", "s_reverse", "s_ctrl", "s_end_rebind"):
        return _mut_seg(se, o, name[2:], k, v, Mx)
    # ---- subpath handles
    elif name.startswith("sub_") or name.startswith("back_"):
        return _mut_sub(se, o, name, k, v, Mx)
    # ---- transformable
    elif name == "imul":
        o *= Mx
    elif name == "imul_str":
        o *= MATS[k % len(MATS)]
    elif name == "xf_post_scale":
        o.transform.post_scale(2, 0.5)
    elif name == "xf_pre_translate":
        o.transform.pre_translate(v, 2)
    elif name == "xf_attr":
        o.transform.e = v
    elif name == "xf_reset":
        o.transform.reset()
    elif name == "xf_setitem":
        o.transform[k % 6] = v
    # ---- paint
    elif name == "fill_red":
        if o.fill is None or o.fill.value is None:
            return False
        o.fill.red = k % 256
    elif name == "fill_value":
        if o.fill is None:
            return False
        o.fill.value = (k * 40503) & 0xFFFFFFFF
    elif name == "fill_opacity":
        if o.fill is None or o.fill.value is None:
            return False
        o.fill.opacity = (k % 10) / 10.0
    elif name == "stroke_green":
        if o.stroke is None or o.stroke.value is None:
            return False
        o.stroke.green = k % 256
    elif name == "stroke_opacity":
        if o.stroke is None or o.stroke.value is None:
            return False
        o.stroke.opacity = (k % 10) / 10.0
    elif name == "sw":
        o.stroke_width = abs(v) + 0.1
    elif name == "fill_rebind":
        o.fill = se.Color("#%06x" % (k * 7919 % 0xFFFFFF))
    elif name == "stroke_rebind":
        o.stroke = se.Color("#%06x" % (k * 104729 % 0xFFFFFF))
    # ---- element
    elif name == "set":
        o.set("data-k", "v%d" % k)
    elif name == "values_item":
        o.values["data-m%d" % (k % 3)] = str(v)
    elif name == "id":
        o.id = "id%d" % k
    # ---- shapes
    elif name == "reify":
        o.reify()
    elif name == "attr_inplace":
        # an in-place arithmetic edit of a geometric property (a float is rebound, a Length is modified)
        for attr in (("font_size", "line_height") if k % 2 and isinstance(getattr(o, "font_size", None), se.Length) else ()) + ("x", "cx", "x1", "width", "rx", "y"):
            cur = getattr(o, attr, None)
            if cur is not None and not isinstance(cur, (str, bool)):
                cur *= 2
                setattr(o, attr, cur)
                return True
        return False
    elif name == "nested_attr":
        va = o.values.get("attributes") if isinstance(o.values, dict) else None
        if not isinstance(va, dict):
            return False
        va["data-z"] = "z%d" % k
    elif name == "i_viewbox":
        vb = getattr(o, "viewbox", None)
        if vb is None:
            return False
        vb.x = v
    elif name == "attr":
        for attr in ("x", "cx", "x1"):
            if hasattr(o, attr) and isinstance(getattr(o, attr), (int, float)):
                setattr(o, attr, v)
                return True
        return False
    elif name in ("pt_x", "pts_append", "pts_del", "pt_imul", "pt_rebind"):
        pts = o.points
        if name == "pts_append":
            pts.append(se.Point(v, 1))
        elif not pts:
            return False
        elif name == "pt_x":
            pts[_idx(k, len(pts))].x = v
        elif name == "pt_imul":
            pts[_idx(k, len(pts))] *= Mx
        elif name == "pt_rebind":
            pts[_idx(k, len(pts))] = se.Point(v, v)
        elif name == "pts_slice":
            i = _idx(k, len(pts))
            pts[i : i + 1] = [se.Point(v, 1), se.Point(1, v)]
        else:
            del pts[_idx(k, len(pts))]
    # ---- path
    elif name in ("seg_end_x", "seg_start_y", "seg_ctrl", "seg_imul", "seg_end_rebind"):
        if len(o) == 0:
            return False
        return _mut_seg(se, o[_idx(k, len(o))], name[4:], k, v, Mx)
    elif name in ("subpath_imul", "subpath_reverse", "subpath_seg"):
        n = o.count_subpaths()
        if n == 0:
            return False
        sub = o.subpath(_idx(k, n))
        if name == "subpath_imul":
            sub *= Mx
        elif name == "subpath_reverse":
            sub.reverse()
        else:
            if len(sub) == 0 or sub[0].end is None:
                return False
            sub[0].end.x = v
    elif name == "setitem_str":
        if len(o) == 0:
            return False
        o[_idx(k, len(o))] = "L %s,%s" % (v, k % 20)
    elif name == "insert_str":
        o.insert(_idx(k, len(o) + 1), "L %s,%s" % (v, k % 20))
    elif name == "slice_del":
        if len(o) < 2:
            return False
        i = _idx(k, len(o) - 1)
        del o[i : i + 1]
    elif name == "append":
        o.append(se.Line(se.Point(v, 0), se.Point(v, v)))
    elif name == "insert":
        o.insert(_idx(k, len(o) + 1), se.Line(se.Point(v, 0), se.Point(v, v)))
    elif name == "setitem":
        if len(o) == 0:
            return False
        o[_idx(k, len(o))] = se.Line(se.Point(0, v), se.Point(v, v))
    elif name == "delitem":
        if len(o) == 0:
            return False
        del o[_idx(k, len(o))]
    elif name == "iadd_str":
        o += "L %s,%s" % (v, k % 50)
    elif name == "reverse":
        o.reverse()
    # ---- text / image
    elif name == "t_text":
        o.text = "t%d" % k
    elif name in ("t_x", "i_x"):
        o.x = v
    elif name in ("t_path_imul", "t_path_seg", "t_path_append"):
        tp = getattr(o, "path", None)
        if tp is None:
            return False
        if name == "t_path_imul":
            tp *= Mx
        elif name == "t_path_seg":
            if len(tp) == 0 or tp[_idx(k, len(tp))].end is None:
                return False
            tp[_idx(k, len(tp))].end.x = v
        else:
            tp.append(se.Line(se.Point(v, 0), se.Point(v, v)))
    elif name == "i_url":
        o.url = "u%d.png" % k
    elif name == "svg_viewbox":
        if getattr(o, "viewbox", None) is None:
            return False
        o.viewbox.x = v
    # ---- group
    elif name.startswith("g_"):
        return _mut_group(se, o, name, k, v, Mx)
    else:
        raise ValueError("unknown mutation %s" % name)
    return True


def _mut_seg(se, s, what, k, v, Mx):
    if what == "end_x":
        if s.end is None:
            return False
        s.end.x = v
    elif what == "start_y":
        if s.start is None:
            return False
        s.start.y = v
    elif what == "imul":
        s *= Mx
    elif what == "reverse":
        s.reverse()
    elif what == "end_rebind":
        s.end = se.Point(v, v)
    elif what == "ctrl":
        for name in ("control", "control1", "control2", "center", "prx"):
            p = getattr(s, name, None)
            if p is not None:
                p *= Mx
                return True
        return False
    return True


def _mut_sub(se, sub, name, k, v, Mx):
    n = len(sub)
    if name == "sub_imul":
        sub *= Mx
    elif name == "sub_seg_end_x":
        if n == 0 or sub[_idx(k, n)].end is None:
            return False
        sub[_idx(k, n)].end.x = v
    elif name == "sub_seg_imul":
        if n == 0:
            return False
        s = sub[_idx(k, n)]
        s *= Mx
    elif name == "sub_reverse":
        sub.reverse()
    elif name == "sub_iadd_str":
        sub += "L %s,3" % v
    elif name == "sub_setitem":
        if n == 0:
            return False
        sub[_idx(k, n)] = se.Line(se.Point(0, v), se.Point(v, v))
    elif name == "sub_delitem":
        if n < 2:
            return False
        del sub[_idx(k, n)]
    elif name == "back_imul":
        p = sub._path
        p *= Mx
    elif name == "back_seg_end_x":
        p = sub._path
        if len(p) == 0 or p[_idx(k, len(p))].end is None:
            return False
        p[_idx(k, len(p))].end.x = v
    elif name == "back_reify":
        sub._path.reify()
    elif name == "back_fill_red":
        f = sub._path.fill
        if f is None or f.value is None:
            return False
        f.red = k % 256
    else:
        raise ValueError(name)
    return True


def _mut_group(se, g, name, k, v, Mx):
    n = len(g)
    if name == "g_append":
        g.append(se.Rect(v, 0, 3, 4))
        return True
    if n == 0:
        return False
    c = g[_idx(k, n)]
    if name == "g_del":
        del g[_idx(k, n)]
    elif name == "g_child_imul":
        c *= Mx
    elif name == "g_child_fill":
        f = getattr(c, "fill", None)
        if f is None or f.value is None:
            return False
        f.red = k % 256
    elif name == "g_child_attr":
        return mutate(se, c, "attr", k, v) if not isinstance(c, list) else False
    elif name == "g_child_reify":
        c.reify()
    elif name == "g_child_set":
        c.set("data-c", "x%d" % k)
    elif name == "g_child_nested_attr":
        va = c.values.get("attributes") if isinstance(getattr(c, "values", None), dict) else None
        if not isinstance(va, dict):
            return False
        va["data-z"] = "c%d" % k
    elif name == "g_child_seg":
        if isinstance(c, se.Path) and len(c):
            return _mut_seg(se, c[_idx(k, len(c))], "end_x", k, v, Mx)
        if isinstance(c, se._Polyshape) and c.points:
            c.points[_idx(k, len(c.points))].x = v
            return True
        return False
    elif name == "g_nested":
        for cc in g:
            if isinstance(cc, list) and len(cc):
                inner = cc[_idx(k, len(cc))]
                inner *= Mx
                return True
        return False
    else:
        raise ValueError(name)
    return True


# --------------------------------------------------------------------------
# execution
# --------------------------------------------------------------------------

_EQ_KINDS = {"Point", "Matrix", "Color", "Length", "Move", "Line", "Close", "Quad", "Cubic", "Arc", "Path", "Rect", "RectR", "Circle", "Ellipse", "SimpleLine", "Polyline", "Polygon", "Text"}


def _eq(a, b):
    try:
        return bool(a == b)
    except Exception:
        return None


def execute(case, se, out, trace):
    V = core.Violation
    kind, deriv = case["kind"], case["deriv"]
    try:
        x = build(se, case["spec"])
        x2 = build(se, case["spec2"]) if "spec2" in case else None
    except Exception as e:
        out.count("skip:build-raises")
        trace.ev("skip-build", type(e).__name__)
        return
    x_twin = None
    if case.get("only_b"):
        try:
            x_twin = build(se, case["spec"])  # never touched until the end
        except Exception:
            x_twin = None
    for w in case.get("warm", []):
        _warm(se, x, w)
        out.count("op:warm-" + w)
    cold = x_twin is not None and not case.get("warm")
    a_roots = [x] + ([x2] if x2 is not None else [])
    frozen = _copy.deepcopy(a_roots)
    before = side_snap(se, a_roots)
    trace.ev("built", kind, deriv)
    # ---- derivation
    try:
        y, (refkind, ref) = derive(se, case, x, x2)
    except Exception as e:
        if core.is_harness_exc(e):
            raise
        out.count("skip:derivation-raises")
        trace.ev("skip-derive", type(e).__name__, core.exc_sig(e)[1])
        # an operator that cannot be evaluated (units that do not convert, ...) still has not modified its operands
        r = diff(before, side_snap(se, a_roots))
        if r:
            raise V("operand-modified", [kind, deriv, "raised"], "%s of %s raised %r and left an operand changed: %s" % (deriv, kind, e, r))
        out.count("probe:operands-intact-after-failed-derivation")
        return
    out.count("op:derive-" + deriv)
    # (b) operands untouched by the (non-in-place) derivation
    after = side_snap(se, a_roots)
    r = diff(before, after)
    if r:
        raise V("operand-modified", [kind, deriv], "%s of %s changed an operand: %s" % (deriv, kind, r))
    # (a) value at derivation
    if refkind == "same":
        r = diff(_strip_sub(snap(se, x)), _strip_sub(snap(se, y)))
        if r:
            raise V("value", [kind, deriv], "%s(%s) differs from its source: %s" % (deriv, kind, r))
        if not cold and kind in _EQ_KINDS and _eq(y, x) is False:
            raise V("value", [kind, deriv, "eq"], "%s(%s) == source is False" % (deriv, kind))
    elif refkind == "same-children":
        sx, sy = snap(se, x), snap(se, y)
        r = diff(sx.get("children"), sy.get("children")) or diff(sx.get("transform"), sy.get("transform")) or diff(sx.get("values"), sy.get("values"))
        if r:
            raise V("value", [kind, deriv], "Group(x) differs from x: %s" % r)
    elif refkind == "snap":
        r = diff(_strip_sub(snap(se, ref)), _strip_sub(snap(se, y)), tol=1e-12)
        if r:
            raise V("value", [kind, deriv], "%s of %s differs from copy followed by the in-place form: %s" % (deriv, kind, r))
    elif refkind == "path-of":
        sy = snap(se, y)
        r = diff(ref["segments"], sy["segments"])
        if r:
            raise V("value", [kind, deriv, "segments"], "Path(x) segments differ from x's untransformed segments: %s" % r)
        so = snap(se, ref["of"])
        for key in ("transform", "fill", "stroke", "stroke_width"):
            r = diff(so.get(key), sy.get(key))
            if r:
                raise V("value", [kind, deriv, key], "Path(x).%s differs from x's: %s" % (key, r))
    b_roots = [y]
    y2 = None
    if case.get("twice"):
        # the same derivation asked for again: the two results are independent of each other as well
        try:
            y2, _ = derive(se, case, x, x2)
        except Exception:
            y2 = None
        if y2 is not None:
            if y2 is y:
                raise V("operand-returned", [kind, deriv, "twice"], "%s of %s handed out the same object twice" % (deriv, kind))
            a_roots = a_roots + [y2]
            frozen = _copy.deepcopy(a_roots)
            out.count("probe:derived-twice")
    if isinstance(y, (se.Point, se.Matrix, se.Length, se.Color, se.PathSegment, se.SVGElement, se.Subpath)) and any(y is r_ for r_ in a_roots):
        raise V("operand-returned", [kind, deriv], "%s of %s handed back one of its operands (the same object): a later in-place operation on the result rewrites the operand" % (deriv, kind))
    if deriv not in INDEPENDENT:
        out.count("probe:operand-only-derivation-checked")
        out.state("%s|%s|-|-" % (kind, deriv))
        return
    # ---- structural probe: a node reachable from both owners
    shared = []
    try:
        na = {}
        for rt in a_roots:
            na.update(public_nodes(se, rt))
            if isinstance(rt, se.Subpath):
                na.update(public_nodes(se, rt._path))
        nb = public_nodes(se, y)
        if isinstance(y, se.Subpath):
            for kk, vv in public_nodes(se, y._path).items():
                nb.setdefault(kk, vv)
        for i in nb:
            if i in na:
                shared.append((nb[i][0], nb[i][1], na[i][0]))
    except Exception as e:
        raise RuntimeError("probe failed: %r" % e)
    steps = 0
    if shared:
        shared.sort(key=lambda t: (len(t[0]), t[0]))
        out.count("probe:shared-node-found")
        pth, node, apath = shared[0]
        out.count("probe:shared:" + type(node).__name__)
        a0 = side_snap(se, a_roots)
        try:
            label = poke(se, node)
        except Exception as e:
            # the library refused the mutation (e.g. arithmetic on an unrendered Length): not applied
            out.count("skip:probe-mutation-raises")
            label = None
        trace.ev("poke", pth, label)
        if label:
            steps += 1
            r = diff(a0, side_snap(se, a_roots))
            if r:
                raise V("aliasing", [kind, deriv, "B->A", type(node).__name__], "%s of %s: mutating the result's %s (%s) changed the source (%s): %s" % (deriv, kind, pth or "<root>", label, apath or "<root>", r))
            frozen = _copy.deepcopy(a_roots)
    # ---- scheduled history
    first = True
    for side, name, k, v in case["muts"]:
        if side == "A":
            target = x
        elif side == "A2" and x2 is not None:
            target = x2
        else:
            side = "B"
            target = y
        a0 = side_snap(se, a_roots)
        b0 = side_snap(se, b_roots)
        try:
            applied = mutate(se, target, name, k, v)
        except Exception as e:
            out.count("skip:mutation-raises")
            trace.ev("mut-raises", side, name, type(e).__name__)
            break  # the object may be half-mutated: stop this history
        if not applied:
            out.count("skip:mutation-not-applicable")
            continue
        steps += 1
        out.count("op:" + name)
        trace.ev("mut", side, name, k, v)
        if first:
            out.state("%s|%s|%s|%s" % (kind, deriv, name, side))
            first = False
        a1 = side_snap(se, a_roots)
        b1 = side_snap(se, b_roots)
        if side == "B":
            r = diff(a0, a1)
            if r:
                raise V("aliasing", [kind, deriv, "B->A", name], "%s of %s: %s on the result changed the source: %s" % (deriv, kind, name, r))
            for fr, cur in zip(frozen, a_roots):
                if not cold and _kind_of(se, cur) in _EQ_KINDS and _eq(cur, fr) is False:
                    raise V("aliasing", [kind, deriv, "B->A", name, "eq"], "%s of %s: after %s on the result the source no longer equals its frozen copy" % (deriv, kind, name))
        else:
            r = diff(b0, b1)
            if r:
                raise V("aliasing", [kind, deriv, "A->B", name], "%s of %s: %s on the source%s changed the result: %s" % (deriv, kind, name, "'s second operand" if side == "A2" else "", r))
            if side == "A2":
                r = diff(a0[:1 + (1 if isinstance(x, se.Subpath) else 0)], a1[:1 + (1 if isinstance(x, se.Subpath) else 0)])
                if r:
                    raise V("aliasing", [kind, deriv, "A2->A", name], "%s on the second operand changed the first: %s" % (name, r))
            else:
                if x2 is not None:
                    r = diff(a0[-1], a1[-1]) if not isinstance(x2, se.Subpath) else None
                    if r:
                        raise V("aliasing", [kind, deriv, "A->A2", name], "%s on the first operand changed the second: %s" % (name, r))
            frozen = _copy.deepcopy(a_roots)
    if x_twin is not None and steps:
        # only the result was ever mutated: what the source draws must be what an untouched twin of it draws
        dx, dt = _deep(se, x), _deep(se, x_twin)
        r = diff(dx, dt, tol=1e-12)
        if r:
            raise V("aliasing", [kind, deriv, "B->A", "drawn-geometry", "cold" if cold else "warm"], "%s of %s: after mutating only the result, what the source draws differs from an untouched twin built from the same data: %s" % (deriv, kind, r))
        out.count("probe:source-vs-twin-compared")
        if cold:
            out.count("probe:cold-source-compared")
    if steps:
        out.count("probe:histories-with-mutations")
    out.count("events", steps + 1)


def _warm(se, x, w):
    try:
        if w == "d":
            x.d()
        elif w == "bbox":
            x.bbox()
        elif w == "length":
            x.length(error=1e-2, min_depth=2)
        elif w == "count_subpaths":
            x.count_subpaths()
        elif w == "subpath":
            x.subpath(0)
        elif w == "eq":
            x == x
        elif w == "segments":
            x.segments()
        else:
            repr(x)
    except Exception:
        pass


def _deep(se, o, depth=0):
    """What the object draws, through its public observers (these may fill caches: only used at the very end)."""
    if isinstance(o, se.Subpath):
        return ("Sub", _try(lambda: o.d()), _try(lambda: se.Path(o).bbox()))
    if isinstance(o, se.Shape):
        return (type(o).__name__, _try(lambda: o.d()), _try(lambda: o.bbox()), _try(lambda: o.d(transformed=False)), _try(lambda: [ob.seg_snap(sg) for sg in o.segments()]))
    if isinstance(o, se.Text):
        return ("Text", _try(lambda: o.bbox()), snap(se, o))
    if isinstance(o, list) and isinstance(o, se.SVGElement) and depth < 6:
        return (type(o).__name__, [_deep(se, c, depth + 1) for c in o], _try(lambda: o.bbox()))
    return snap(se, o)


def _try(fn):
    try:
        r = fn()
    except Exception as e:
        return ("raises", type(e).__name__)
    if isinstance(r, tuple):
        return list(r)
    return r


def _strip_sub(s):
    return s


def _kind_of(se, o):
    n = type(o).__name__
    if n == "QuadraticBezier":
        return "Quad"
    if n == "CubicBezier":
        return "Cubic"
    if n == "Rect":
        return "Rect"
    if n == "Group":
        return "Group"
    if n in KIND_TABLE:
        return n
    return n


# --------------------------------------------------------------------------
# shrinking
# --------------------------------------------------------------------------


def shrink(case):
    ms = case["muts"]
    for cand in core.ddmin_list(ms):
        c = _copy.deepcopy(case)
        c["muts"] = cand
        yield c
    spec = case["spec"]
    if spec.get("kids") and len(spec["kids"]) > 1:
        for i in range(len(spec["kids"])):
            c = _copy.deepcopy(case)
            del c["spec"]["kids"][i]
            yield c
    for key, simple in (("tr", ""), ("fill", None), ("stroke", None), ("sw", None), ("id", None)):
        if spec.get(key) not in (simple, None) or (key == "tr" and spec.get(key)):
            c = _copy.deepcopy(case)
            c["spec"][key] = simple
            yield c
    if spec.get("d"):
        # drop trailing commands textually is not safe; leave the path data alone
        pass
    if case.get("m") != "scale(2)":
        c = _copy.deepcopy(case)
        c["m"] = "scale(2)"
        yield c
