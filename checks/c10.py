"""
C10 - document parsing never aborts on a bad element; siblings are unaffected.

Attribute-value faults (1-3 per run) injected into generated well-formed
documents; the damaged document and the same document without the offending
elements are delivered to SVG.parse under independently drawn delivery
schedules (StringIO, BytesIO, short-read streams, simulated file) and compared
element by element outside the exempt set.  DESIGN.md 5.2.
"""
import copy as _copy
import io
import os

from sim import core, gen_doc as gd, observe as ob, simfs

PROPERTY = "C10"
LEVEL = "fault_enumeration"
QUICK_RUNS = 80000
THOROUGH_RUNS = 1500000
RULE = (
    "seeded runs: a generated well-formed SVG document (<=12 elements, nesting <=3: svg/g/defs/use/nested svg, the seven "
    "shapes, text/title/desc, style sheet, presentation and style attributes, transforms, units, percentages) receives "
    "1-3 attribute faults from a grammar of syntactically malformed values (path data, transform, colour, length, points, "
    "viewBox, number) or a use retargeting (missing, self, ancestor, mutual cycle), biased per stratum to containers, "
    "referenced elements, first/last children; sentinel siblings with percentage sizes and inherited paint are placed "
    "after faulted elements. Oracles: parse returns (no exception), bounded line steps, every element outside the "
    "exempt set identical to the parse of the document without the offending elements; both parses use independently "
    "drawn delivery schedules. distinct = distinct (element tag, attribute, fault kind, position class) cells (and pairs "
    "for multi-fault runs); non-trivial = at least one fault applied."
)
ASSUMPTIONS = [
    "faults are syntactically malformed values only; zero or negative sizes are legal values with defined meaning and are not injected",
    "instances of exempt source elements (offending subtree, anything a use inside it references, any use pointing into it) are unconstrained",
    "line-step budget: 20x the maximum observed on the pinned tree's fault-free documents, linear in expanded document size",
]

BIASES = ["path", "transform", "colour", "length", "points", "viewbox", "number", "use", "container", "used", "edge", "style", "absent", "clip"]
STEP_K = 250
STEP_C = 50000
# runaway bound in function entries + generator resumptions: RUNAWAY_K per unit of document size (characters +
# 80 per instantiated element + 40 x chain length squared); the maximum over the calibration corpus is 6.4 per unit
RUNAWAY_K = 25
RUNAWAY_C = 20000
_RUNAWAY = [4_000_000]
SIZES = [1, 2, 3, 5, 7, 16, 64, 1000, None]
MODES = ["stringio", "bytesio", "stream-bytes", "stream-text", "simfs"]


def _delivery(ch):
    return {"mode": ch.choice(MODES), "sizes": [ch.choice(SIZES) for _ in range(ch.int(1, 5))], "buffer": ch.choice([1, 16, 8192])}


def generate(seed, index, tier):
    ch = core.Chooser(seed)
    heavy = index % 5 == 0
    doc = gd.gen_doc(ch, max_elems=ch.int(3, 12), max_depth=3, use_heavy=heavy, extra_kinds=index % 3 == 1)
    if index % 37 == 5:
        # a document whose outermost element is not an svg (a bare group): no SVG object to register ids with
        doc["tag"] = "g"
        for a in ("width", "height", "viewBox", "preserveAspectRatio", "x", "y"):
            doc["attrs"].pop(a, None)
    if index % 41 == 7:
        # the document itself asks not to be rendered: still a document
        if ch.coin(0.5):
            doc["attrs"]["display"] = "none"
        else:
            doc["attrs"]["style"] = "display:none"
    st = index % 29  # prime: every bias meets every other index-derived stratum (steps, poison, heavy, extra kinds)
    case = {"faults": []}
    if st == 28:
        bias = "control"
        nf = 0
    else:
        bias = BIASES[st % 14]
        if heavy and ch.coin(0.6):
            bias = ch.choice(["in-used", "in-used", "use", "used"])
        nf = 1 if st < 14 else ch.int(2, 3)
    if nf:
        case["faults"] = gd.apply_faults(ch, doc, nf, bias)
    # sentinels: state-sensitive siblings right after a faulted element
    if case["faults"] and ch.coin(0.5):
        nmax = max(e["n"] for e in gd.walk(doc))
        target = {f["n"] for f in case["faults"]}
        for e, parent in list(gd.walk_with_parent(doc)):
            if parent is not None and e["n"] in target:
                nmax += 1
                sent = {"tag": "rect", "attrs": {"x": "10%", "y": "5%", "width": "50%", "height": "25%", "data-n": str(nmax)}, "kids": [], "text": None, "n": nmax}
                if ch.coin(0.5):
                    sent["attrs"]["stroke-width"] = "2%"
                i = parent["kids"].index(e)
                parent["kids"].insert(i + 1, sent)
    # a colour fault that is a near-spelling of a colour a LATER sibling states well-formed, with digits unique to
    # this run (so that this process never saw the good spelling before the bad one)
    for f in case["faults"]:
        if f["kind"] == "colour" and f["attr"] in ("fill", "stroke") and ch.coin(0.5):
            H = "%06x" % ((seed >> 8) & 0xFFFFFF)
            for e, parent in list(gd.walk_with_parent(doc)):
                if parent is not None and e["n"] == f["n"]:
                    bad = "#" + H[:2] + ch.choice([" ", "  "]) + H[2:]
                    e["attrs"][f["attr"]] = bad
                    f["value"] = bad
                    nmax = max(x["n"] for x in gd.walk(doc)) + 1
                    sib = {"tag": "rect", "attrs": {"x": "1", "y": "2", "width": "30", "height": "20", "style": "%s:#%s" % (f["attr"], H), "data-n": str(nmax)}, "kids": [], "text": None, "n": nmax}
                    parent["kids"].insert(parent["kids"].index(e) + 1, sib)
            break
    if index % 499 == 7:
        # a very long literal: matching it must stay cheap (no step counter sees inside the regex engine; what
        # reports super-linear matching is the wall-clock watchdog, which these sizes miss or exceed by two orders)
        opts_l = []
        for e in gd.walk(doc):
            if e["tag"] in ("polyline", "polygon"):
                opts_l.append((e, "points", "1" * 2000))
            elif e["tag"] in ("rect", "circle", "ellipse", "path", "line"):
                opts_l.append((e, "fill", "rgb(" + "1" * 40000))
                opts_l.append((e, "transform", "translate(" + "1" * 40000))
        if opts_l:
            e, a, v = ch.choice(opts_l)
            e["attrs"][a] = v
            case["faults"].append({"n": e["n"], "tag": e["tag"], "attr": a, "kind": "long-literal", "value": v[:12] + "...(%d)" % len(v)})
    if index % 331 == 17:
        # nesting deeper than the interpreter's recursion limit: the root's content is wrapped in that many groups
        case["nest"] = ch.choice([300, 1200, 1200, 4000])
    elif index % 331 == 170:
        # a long acyclic chain of uses, each instantiating the one before it
        nmax = max(e["n"] for e in gd.walk(doc))
        ln = ch.choice([40, 90, 150])  # every use is expanded where it stands: the work is quadratic in the length
        kids = [{"tag": "rect", "attrs": {"id": "chain0", "x": "1", "y": "2", "width": "3", "height": "4", "data-n": str(nmax + 1)}, "kids": [], "text": None, "n": nmax + 1}]
        for i in range(1, ln):
            kids.append({"tag": "use", "attrs": {ch.choice(["href", "xlink:href"]): "#chain%d" % (i - 1), "id": "chain%d" % i, "data-n": str(nmax + 1 + i)}, "kids": [], "text": None, "n": nmax + 1 + i})
        doc["kids"].extend(kids)
        case["chain"] = ln
    case["doc"] = doc
    case["bias"] = bias
    case["delivery"] = _delivery(ch)
    case["delivery_ref"] = _delivery(ch)
    # configuration of the parse (the same for both sides): the error mode stays the default
    opts = {}
    if ch.coin(0.4):
        opts["reify"] = False
    if ch.coin(0.3):
        opts["ppi"] = 72.0
    if ch.coin(0.2):
        opts["width"], opts["height"] = 500, 400
    if ch.coin(0.15):
        opts["color"] = "red"
    if ch.coin(0.1):
        opts["transform"] = "scale(2)"
    case["opts"] = opts
    # history independence: an unrelated document parsed between two parses of this one
    if index % 6 == 2:
        pch = core.Chooser(seed ^ 0xD0C)
        pdoc = gd.gen_doc(pch, max_elems=6, max_depth=2, use_heavy=pch.coin(0.5))
        gd.apply_faults(pch, pdoc, pch.int(0, 2), pch.choice(["use", "transform", "colour", None]))
        # make sure it has a style sheet and colliding ids: the state most likely to be kept by mistake
        pdoc["kids"].insert(0, {"tag": "style", "attrs": {"data-n": "9001"}, "kids": [], "text": "rect { fill: #0a0b0c; stroke: lime } .c1 { stroke-width: 7 } #e1 { fill: orange } * { stroke-opacity: 0.3 }", "n": 9001})
        case["poison"] = gd.serialise(pdoc)
    case["steps"] = bool(index % 4 == 1) and not case.get("nest") and not case.get("chain")
    case["reference_first"] = bool((index // 4) % 2)
    return case


# --------------------------------------------------------------------------
# execution
# --------------------------------------------------------------------------


class Runaway(Exception):
    pass


def deliver_and_parse(se, xml, delivery, out, counter, **kw):
    """(se may be the long-lived module or a pristine instance of it). Unless a budget is already running (the
    parse under test), the call runs under the flat runaway bound and raises Runaway when it exceeds it."""
    if core.STEPS.active:
        return _deliver_and_parse(se, xml, delivery, out, counter, **kw)
    core.STEPS.start(_RUNAWAY[0], coarse=True)
    try:
        return _deliver_and_parse(se, xml, delivery, out, counter, **kw)
    except core.StepBudgetExceeded:
        raise Runaway("a parse of %d chars did not finish within %d function entries and generator resumptions" % (len(xml), _RUNAWAY[0]))
    finally:
        core.STEPS.stop()


def _deliver_and_parse(se, xml, delivery, out, counter, **kw):
    """Hand the document to SVG.parse the way the schedule says."""
    mode = delivery["mode"]
    sizes = delivery["sizes"]
    out.count("op:deliver-" + mode)
    if mode == "stringio":
        return se.SVG.parse(io.StringIO(xml), **kw)
    data = xml.encode("utf-8")
    if mode == "bytesio":
        return se.SVG.parse(io.BytesIO(data), **kw)
    if mode == "stream-bytes":
        st = simfs.SimStream(data, sizes, counter)
        return se.SVG.parse(st, **kw)
    if mode == "stream-text":
        # the declaration names UTF-8; a str source is fed to expat as text
        st = simfs.SimStream(xml, sizes, counter)
        return se.SVG.parse(st, **kw)
    disk = simfs.SimDisk(simfs.FaultPlan(read_sizes=sizes, buffer_size=delivery.get("buffer")))
    disk.put("/simfs/doc.svg", data)
    with disk:
        r = se.SVG.parse("/simfs/doc.svg", **kw)
    counter["short_read"] = counter.get("short_read", 0) + disk.fired["short_read"]
    return r


def _pos_class(doc, n):
    ids_used = set()
    for e in gd.walk(doc):
        if e["tag"] == "use":
            _, h = gd.href_of(e)
            if h:
                ids_used.add(h[1:])
    for e, parent in gd.walk_with_parent(doc):
        if e["n"] == n:
            if parent is None:
                return "root"
            if e["attrs"].get("id") in ids_used:
                return "used-elsewhere"
            if e["kids"] or e["tag"] in ("g", "svg", "defs", "use"):
                return "container"
            chain = gd._ancestor_chain(doc, e)
            if any(a["tag"] == "defs" for a in chain):
                return "inside-defs"
            return "leaf"
    return "?"


def _nested(xml, n):
    """The serialised document with the content of its outermost element wrapped in n groups."""
    if not n:
        return xml
    i = xml.index(">", xml.index("<", xml.index("?>") + 2 if xml.startswith("<?xml") else 0))
    if xml[i - 1] == "/":
        return xml
    j = xml.rindex("</")
    return xml[: i + 1] + "<g>" * n + xml[i + 1 : j] + "</g>" * n + xml[j:]


def execute(case, se, out, trace):
    V = core.Violation
    doc = case["doc"]
    faults = case["faults"]
    for f in faults:
        out.count("fault:" + f["kind"])
    if not faults:
        out.count("fault:none")
    cells = []
    for f in faults:
        cells.append("%s|%s|%s|%s" % (f["tag"], f["attr"], f["kind"], _pos_class(doc, f["n"])))
    if cells:
        out.state(" + ".join(sorted(cells)))
    else:
        out.state("control|%s" % case["delivery"]["mode"])
    xml = _nested(gd.serialise(doc), case.get("nest"))
    if case.get("nest"):
        out.count("fault:deep-nesting")
    trace.ev("doc", xml)
    n_inst, chars = gd.expanded_size(doc)
    _RUNAWAY[0] = RUNAWAY_K * (len(xml) + 80 * n_inst + 40 * (case.get("chain") or 0) ** 2) + RUNAWAY_C
    f0 = faults[0] if len(faults) == 1 else ({"tag": "multi", "attr": "multi", "kind": "+".join(sorted(set(f["kind"] for f in faults)))} if faults else {"tag": "-", "attr": "-", "kind": "none"})
    counter = {}
    offending = {f["n"] for f in faults}
    pre_ref = None
    # the reference (document without the offending elements) is parsed by a pristine instance of the library:
    # what the long-lived instance has kept from this or earlier documents cannot leak into it
    se_ref = core.fresh_se()
    if case.get("reference_first") and faults and doc["n"] not in offending:
        # the schedule decides which of the two documents the process sees first
        try:
            pre_ref = deliver_and_parse(se_ref, _nested(gd.serialise(gd.remove_elements(doc, offending)), case.get("nest")), case["delivery_ref"], out, {}, **case.get("opts", {}))
            pre_ref = ("ok", pre_ref)
            out.count("probe:reference-parsed-first")
        except Runaway as e:
            raise V("steps", ["reference", "runaway"], "the document without the offending element(s): %s" % e)
        except Exception as e:
            if core.is_harness_exc(e):
                raise
            pre_ref = ("raised", e)
    # ---- 1+2: the damaged document must parse
    # every parse of the check runs under a deterministic budget: the calibrated line-step budget where the steps
    # oracle is on, a flat bound on function entries and generator resumptions (a tenth of the cost of counting
    # lines) everywhere else, so that a parse that never ends is a violation, not a stuck harness
    if case.get("steps"):
        budget = STEP_K * (chars + 80 * n_inst) + STEP_C
        core.STEPS.start(budget)
    else:
        budget = _RUNAWAY[0]
        core.STEPS.start(budget, coarse=True)
    exc = None
    svg = None
    try:
        svg = deliver_and_parse(se, xml, case["delivery"], out, counter, **case.get("opts", {}))
    except core.StepBudgetExceeded:
        pass
    except RecursionError as e:
        exc = e
    except MemoryError:
        # under the address-space cap of the chunk children: a parse that allocates without end
        core.STEPS.stop()
        raise V("steps", [f0["tag"], f0["attr"], f0["kind"], "memory"], "SVG.parse ran out of memory (cap %s GB) on a document of %d chars" % (os.environ.get("VERIF_MEM_CAP_GB", "3"), len(xml)))
    except Exception as e:
        exc = e
    steps = core.STEPS.stop()
    out.steps += steps
    if core.STEPS.exceeded:
        raise V("steps", [f0["tag"], f0["attr"], f0["kind"]] + ([] if case.get("steps") else ["runaway"]), "SVG.parse did not finish within %d %s (document of %d chars)" % (budget, "line steps" if case.get("steps") else "function entries and generator resumptions", len(xml)))
    for k, v in counter.items():
        out.count("fault:delivery-" + k, v)
    out.count("events", 1)
    if exc is not None and core.is_harness_exc(exc):
        raise core.HarnessFault("exception from the harness inside SVG.parse: %r" % exc) from exc
    if exc is not None:
        raise V("no-raise", [type(exc).__name__, core.exc_sig(exc)[1], f0["tag"], f0["attr"], f0["kind"]], "SVG.parse raised %r for fault(s) %s%s" % (exc, _fdesc(faults), " (content nested in %d groups)" % case["nest"] if case.get("nest") else ""))
    trace.ev("parsed", type(svg).__name__)
    # "returns a document tree": for a document whose outermost element is an svg that is an SVG object, whatever
    # happened to the element's own attributes (a fault on the root may leave it empty, not replace it by a child)
    if doc["tag"] == "svg" and not isinstance(svg, se.SVG):
        raise V("no-tree", [type(svg).__name__, f0["tag"], f0["attr"], f0["kind"]], "SVG.parse returned %s instead of a document tree for fault(s) %s" % (type(svg).__name__, _fdesc(faults)))
    # ---- 3: isolation
    root_n = doc["n"]
    if root_n in offending:
        out.count("probe:fault-on-root")
        return
    ref_doc = gd.remove_elements(doc, offending)
    xml_ref = _nested(gd.serialise(ref_doc), case.get("nest"))
    if pre_ref is not None:
        if pre_ref[0] == "raised":
            out.count("skip:reference-raises")
            return
        svg_ref = pre_ref[1]
    else:
        try:
            svg_ref = deliver_and_parse(se_ref, xml_ref, case["delivery_ref"], out, {}, **case.get("opts", {}))
        except Runaway as e:
            raise V("steps", ["reference", "runaway"], "the document without the offending element(s): %s" % e)
        except Exception as e:
            if core.is_harness_exc(e):
                raise
            out.count("skip:reference-raises")
            trace.ev("ref-raises", type(e).__name__)
            return
    # positional exemption: in the returned tree, every node that is an instance of an offending element or of
    # one of its source descendants is left out together with everything under it (the offender's subtree,
    # including whatever a use inside it instantiates); every other instance of every element is compared
    E = {str(n) for n in gd.offending_subtrees(doc, offending)}
    R = ob.observe_doc(se, svg, skip_ns=E)
    Rr = ob.observe_doc(se_ref, svg_ref, skip_ns=E)
    trace.ev("observed", len(R), len(Rr))
    if any(r["n"] is None for r in R + Rr):
        out.count("probe:instance-without-serial")
    # An offending use whose own construction fails leaves no node to hang its content on: the library may still
    # render that content ("rendered up to the error") next to where the use stood. Such extra instances - of
    # elements the offending uses reference - are tolerated; nothing may be missing, and every other instance
    # must be equal.
    T = {str(n) for n in gd.referenced_by(doc, offending)}
    eq_cache = {}

    def same(i, j):
        k = (i, j)
        if k not in eq_cache:
            eq_cache[k] = R[i]["n"] == Rr[j]["n"] and ob.records_equal(R[i], Rr[j], rel=1e-9)[0]
        return eq_cache[k]

    import functools

    @functools.lru_cache(maxsize=None)
    def align(i, j):
        if j == len(Rr):
            return all(R[x]["n"] in T for x in range(i, len(R)))
        if i == len(R):
            return False
        if same(i, j) and align(i + 1, j + 1):
            return True
        return R[i]["n"] in T and align(i + 1, j)

    if len(R) * max(1, len(Rr)) > 40000:
        out.count("skip:isolation-too-large")
        return
    if not align(0, 0):
        # report the first difference of a plain left-to-right comparison
        i = j = 0
        while i < len(R) and j < len(Rr):
            if R[i]["n"] == Rr[j]["n"]:
                ok, msg = ob.records_equal(R[i], Rr[j], rel=1e-9)
                if not ok and R[i]["n"] not in T:
                    raise V("isolation", [msg.split(" ")[0].rstrip(":"), f0["tag"], f0["attr"], f0["kind"]], "element data-n=%s (%s) differs from the parse without the offending element(s): %s; faults %s" % (R[i]["n"], R[i]["cls"], msg, _fdesc(faults)))
                if ok:
                    i += 1
                    j += 1
                    continue
            if R[i]["n"] in T:
                i += 1
                continue
            break
        raise V("isolation", ["sequence", f0["tag"], f0["attr"], f0["kind"]], "elements outside the offending subtree differ in number/order (or an instance differs): %s vs %s without the offending element(s); faults %s" % ([r["n"] for r in R], [r["n"] for r in Rr], _fdesc(faults)))
    if len(R) != len(Rr):
        out.count("probe:extra-instances-of-failed-use-tolerated")
    if case.get("poison"):
        first = ob.observe_doc(se, svg)
        try:
            deliver_and_parse(se, case["poison"], {"mode": "stringio", "sizes": [None]}, out, {})
        except Runaway as e:
            raise V("steps", ["poison", "runaway"], "the unrelated document: %s" % e)
        except Exception:
            pass
        out.count("fault:poison-parse-between")
        try:
            svg2 = deliver_and_parse(se, xml, case["delivery_ref"], out, {}, **case.get("opts", {}))
        except Runaway as e:
            raise V("steps", ["second-parse", "runaway"], "the same document after an unrelated one: %s" % e)
        except Exception as e:
            if core.is_harness_exc(e):
                raise
            raise V("history", ["raises", type(e).__name__, core.exc_sig(e)[1]], "the same document parsed at first and raised %r after an unrelated document was parsed: the result depends on earlier calls" % e)
        second = ob.observe_doc(se, svg2)
        if [r["n"] for r in first] != [r["n"] for r in second]:
            raise V("history", ["sequence"], "the same document gave elements %s at first and %s after an unrelated document was parsed" % ([r["n"] for r in first], [r["n"] for r in second]))
        for a, b in zip(first, second):
            ok, msg = ob.records_equal(a, b, rel=1e-12)
            if not ok:
                raise V("history", [msg.split(" ")[0].rstrip(":")], "element data-n=%s differs between two parses of the same document with an unrelated parse in between: %s" % (a["n"], msg))
        out.count("probe:history-independence-checked")
    out.count("probe:isolation-compared", 1)
    out.count("probe:elements-compared", len(R))
    if E - {str(n) for n in offending}:
        out.count("probe:offender-has-descendants")


def _fdesc(faults):
    return "; ".join("<%s data-n=%s %s=%r> [%s]" % (f["tag"], f["n"], f["attr"], f["value"], f["kind"]) for f in faults)


# --------------------------------------------------------------------------
# shrinking
# --------------------------------------------------------------------------


def _without(doc, n):
    return gd.remove_elements(doc, {n})


def shrink(case):
    doc = case["doc"]
    protected = {f["n"] for f in case["faults"]}
    # keep ancestors of faulted elements
    keep = set(protected)
    for e in gd.walk(doc):
        if e["n"] in protected:
            for a in gd._ancestor_chain(doc, e):
                keep.add(a["n"])
    # drop one fault (restoring is not possible: drop the element carrying it)
    # drop elements not needed
    for e in list(gd.walk(doc)):
        if e["n"] in keep or e["n"] == doc["n"]:
            continue
        c = _copy.deepcopy(case)
        c["doc"] = _without(doc, e["n"])
        yield c
    if len(case["faults"]) > 1:
        for i, f in enumerate(case["faults"]):
            c = _copy.deepcopy(case)
            c["doc"] = _without(doc, f["n"])
            del c["faults"][i]
            c["faults"] = [x for x in c["faults"] if any(e["n"] == x["n"] for e in gd.walk(c["doc"]))]
            if c["faults"]:
                yield c
    # drop attributes that are not the faulted ones
    for e in gd.walk(doc):
        fa = {f["attr"] for f in case["faults"] if f["n"] == e["n"]}
        for a in list(e["attrs"]):
            if a in fa or a in ("data-n", "id", "href", "xlink:href"):
                continue
            c = _copy.deepcopy(case)
            for x in gd.walk(c["doc"]):
                if x["n"] == e["n"]:
                    del x["attrs"][a]
            yield c
    # simplest delivery
    for key in ("delivery", "delivery_ref"):
        if case[key]["mode"] != "stringio":
            c = _copy.deepcopy(case)
            c[key] = {"mode": "stringio", "sizes": [None], "buffer": 8192}
            yield c
    if case.get("steps"):
        c = _copy.deepcopy(case)
        c["steps"] = False
        yield c
    if case.get("opts"):
        c = _copy.deepcopy(case)
        c["opts"] = {}
        yield c
