"""
C16 - reverse() traces the same geometry backwards and is an involution.

Histories of reversals on two kinds of handle onto one shared segment list
(the Path and Subpath views of it, fresh and stale), interleaved with
transforms, copies and observers, checked after every step against a small
executable reference model.  DESIGN.md 5.3.
"""
import copy as _copy

from sim import core, gen_path as gp, observe as ob

PROPERTY = "C16"
LEVEL = "exploration"
QUICK_RUNS = 60000
THOROUGH_RUNS = 1000000
RULE = (
    "seeded histories of 3-10 operations (whole-path reverse, reverse through a fresh Subpath view, reverse through a "
    "stale view, transform+reify, copy-and-continue, observers d/bbox/length) on grammar-directed valid paths with 1-4 "
    "subpaths (open/closed, zero and non-zero closes, a subpath directly after a close without its own move, fragments "
    "without a leading move, single-segment and move-only subpaths, all segment kinds, magnitudes 1e-3..1e5); after each "
    "step the real path is compared with a reference model (list of subpaths of sampled primitives). distinct = distinct "
    "(kind string of the path, first three operation kinds); non-trivial = at least one reversal was checked."
)
ASSUMPTIONS = [
    "'restores the original' is judged on geometry and structure (drawn segments, subpath starts, closedness), not with Path.__eq__, which also compares the Move.start back-link",
    "paths containing arcs are transformed by similarities and reflections only: the representation of an arc under shear is C02's subject",
    "stale views are used only while the window structure is unchanged (the class documents anything else as undefined)",
]

XF_SIM = ["rotate(30)", "scale(-1,1)", "translate(5,-3)", "scale(2)", "matrix(0,1,1,0,0,0)", "rotate(-135) scale(0.5)", "scale(1,-1) translate(1,1)"]
XF_ANY = XF_SIM + ["scale(2,0.5)", "scale(-2,3) rotate(45)", "matrix(1,0.5,-0.3,2,5,6)", "skewX(20)"]
OBS = ["d", "bbox", "length", "drel", "subpaths"]


# --------------------------------------------------------------------------
# generation
# --------------------------------------------------------------------------


def _gen_path_cmds(ch, mag):
    """1-4 subpaths with the boundary structures the property names."""
    nsub = ch.int(1, 4)
    cmds = []
    for si in range(nsub):
        shape = ch.weighted([("open", 4), ("closed", 4), ("closed0", 2), ("moveonly", 1), ("single", 2), ("nomove", 2 if si > 0 else 0), ("closeonly", 0.5 if si > 0 else 0)])
        ndraw = ch.int(1, 4)
        draw = gp.gen_cmds(ch, ndraw, mag=mag, leading_move=False, letters=gp.DRAW_LETTERS, allow_zc=ch.coin(0.1), max_groups=2, arc_zero=False)
        move = gp.gen_cmds(ch, 1, mag=mag, leading_move=True)
        if shape == "moveonly":
            cmds += [{"c": move[0]["c"], "g": move[0]["g"][:1], "zc": 0}]
            continue
        if shape == "closeonly":
            cmds += [{"c": "z", "g": [], "zc": 0}]
            continue
        if shape == "single":
            draw = draw[:1]
            draw[0]["g"] = draw[0]["g"][:1]
        if shape != "nomove":
            cmds += move
        cmds += draw
        if shape in ("closed", "nomove") and ch.coin(0.6 if shape == "closed" else 0.4) or shape == "closed":
            cmds.append({"c": ch.choice("zZ"), "g": [], "zc": 0})
        elif shape == "closed0":
            # explicit line back to the start, then a zero-length close: use an inline-closing line
            cmds.append({"c": "L", "g": [], "zc": 1})
    return cmds


def generate(seed, index, tier):
    ch = core.Chooser(seed)
    mag = ch.choice(gp.MAGS)
    cmds = _gen_path_cmds(ch, mag)
    if index % 6 == 4:
        # degenerate but legal geometry: a coordinate pair repeated (control on an end point, zero-length segments)
        for cmd in cmds:
            for g in cmd["g"]:
                if cmd["c"].upper() in "CSQ" and len(g) >= 4 and ch.coin(0.5):
                    g[0], g[1] = g[-2], g[-1]
                elif cmd["c"] in "lt" and ch.coin(0.3):
                    g[0], g[1] = "0", "0"
    if index % 13 == 7:
        # sizes beyond the usual handful: code that switches strategy at a length threshold
        n_long = ch.int(25, 70)
        long_draw = gp.gen_cmds(ch, n_long, mag=mag, leading_move=False, letters="LlHhVvLlQqTt", allow_zc=False, max_groups=2, arc_zero=False)
        cmds = gp.gen_cmds(ch, 1, mag=mag, leading_move=True)[:1] + long_draw + ([{"c": "z", "g": [], "zc": 0}] if ch.coin(0.5) else []) + (cmds if ch.coin(0.5) else [])
    case = {"cmds": cmds, "style": ch.int(0, 63), "fragment": bool(index % 7 == 3), "mag": mag}
    has_arc = any(c["c"] in "Aa" for c in cmds)
    xfs = XF_SIM if has_arc else XF_ANY
    nops = ch.int(3, 10)
    ops = []
    views = False
    for _ in range(nops):
        k = ch.weighted([("rev", 4), ("sub", 5), ("stale", 2 if views else 0), ("views", 1), ("xf", 2), ("copy", 1), ("obs", 2), ("rev2", 2), ("sub2", 3)])
        if k == "rev":
            ops.append(["rev"])
            views = False
        elif k == "rev2":
            ops += [["rev"], ["rev"]]
            views = False
        elif k == "sub":
            ops.append(["sub", ch.int(0, 7)])
        elif k == "sub2":
            i = ch.int(0, 7)
            ops += [["sub", i], ["sub", i]]
        elif k == "stale":
            ops.append(["stale", ch.int(0, 7)])
        elif k == "views":
            ops.append(["views"])
            views = True
        elif k == "xf":
            ops.append(["xf", ch.choice(xfs)])
        elif k == "copy":
            ops.append(["copy"])
            views = False
        else:
            ops.append(["obs", ch.choice(OBS)])
    case["ops"] = ops
    case["negative_index"] = bool(index % 5 == 3)
    if index % 17 == 9:
        # a fragment built through the API from one segment object (path data cannot spell a lone close of non-zero
        # length, or a curve without a current point), alone or in front of the generated subpaths
        nums = [float(gp.gen_number(ch, mag)) for _ in range(8)]
        if nums[0] == nums[2] and nums[1] == nums[3]:
            nums[2] += 1.0
        case["api_fragment"] = {"kind": ch.choice(["Close", "Close", "Line", "QuadraticBezier", "CubicBezier"]), "nums": nums, "more": ch.coin(0.5)}
    if index % 11 == 5:
        import math

        r = abs(float(gp.gen_number(ch, mag, positive=True, allow_zero=False))) or mag
        case["full_arc"] = {"cx": float(gp.gen_number(ch, mag)), "cy": float(gp.gen_number(ch, mag)), "rx": r, "ry": r * ch.choice([1.0, 0.5, 2.0]), "sweep": ch.choice([1, -1]) * math.tau, "more": ch.coin(0.5)}
    return case


# --------------------------------------------------------------------------
# canonical form (independent subpath partition) and the reference model
# --------------------------------------------------------------------------


def _segrec(seg, with_samples):
    k = type(seg).__name__
    rec = {"k": k, "pts": ob.seg_points(seg)}
    if with_samples:
        rec["samples"] = ob.sample_points(seg, 8)
    return rec


def canon_form(p, with_samples=True):
    """Partition the segment list into subpaths by the SVG rule: a move opens a
    subpath, a close ends it, any other segment continues (or implicitly opens) one."""
    subs = []
    cur = None

    def new(start, has_move, lo):
        return {"start": start, "move": has_move, "segs": [], "closed": False, "close": None, "lo": lo, "hi": lo}

    for idx, seg in enumerate(p):
        k = type(seg).__name__
        if k == "Move":
            if cur is not None:
                subs.append(cur)
            cur = new(ob.pt(seg.end), True, idx)
        elif k == "Close":
            if cur is None:
                cur = new(ob.pt(seg.start), False, idx)
            cur["closed"] = True
            cur["close"] = [ob.pt(seg.start), ob.pt(seg.end)]
            cur["hi"] = idx
            subs.append(cur)
            cur = None
        else:
            if cur is None:
                cur = new(ob.pt(seg.start), False, idx)
            cur["segs"].append(_segrec(seg, with_samples))
        if cur is not None:
            cur["hi"] = idx
    if cur is not None:
        subs.append(cur)
    return subs


def _final_point(s):
    if s["closed"] or not s["segs"]:
        return s["start"]
    r = s["segs"][-1]
    return r["pts"][1] if r["k"] == "Arc" else r["pts"][-1]


def _normalise(subs):
    """A move-only subpath that coincides with the start of its successor or with the
    final current point of its predecessor draws nothing and marks no new point: drop it,
    so that `M a M a L b` and `M a L b` (and their reversals) have one canonical form."""
    out = []
    subs = [dict(s) for s in subs]
    n = len(subs)
    for i, s in enumerate(subs):
        if not s["segs"] and not s["closed"] and s["start"] is not None:
            nxt = subs[i + 1] if i + 1 < n else None
            if nxt is not None and nxt["start"] is not None and ob.close_val(nxt["start"], s["start"], 1e-12, 1e-300):
                nxt["move"] = True
                continue
            if out and _final_point(out[-1]) is not None and ob.close_val(_final_point(out[-1]), s["start"], 1e-12, 1e-300):
                continue
        out.append(s)
    return out


def _rev_seg(rec):
    k = rec["k"]
    pts = rec["pts"]
    if k == "Arc":
        npts = [pts[1], pts[0], pts[2], pts[3], pts[4], -pts[5] if pts[5] is not None else None]
    else:
        npts = list(reversed(pts))
    out = {"k": k, "pts": npts}
    if "samples" in rec:
        out["samples"] = list(reversed(rec["samples"]))
    return out


def model_rev_sub(s):
    segs = [_rev_seg(r) for r in reversed(s["segs"])]
    if s["segs"]:
        k = s["segs"][-1]["k"]
        new_start = s["segs"][-1]["pts"][1] if k == "Arc" else s["segs"][-1]["pts"][-1]
    else:
        new_start = s["start"]
    out = {"start": new_start, "move": s["move"], "segs": segs, "closed": s["closed"], "close": None, "lo": s["lo"], "hi": s["hi"]}
    if s["closed"]:
        a, b = s["close"]
        out["close"] = [b, a]
    return out


def model_rev_all(subs):
    return [model_rev_sub(s) for s in reversed(subs)]


def _struct(subs):
    return "|".join("".join(ob.KIND_LETTER[r["k"]] for r in s["segs"]) + ("z" if s["closed"] else "") for s in subs)


def _scale(subs):
    m = 0.0
    for s in subs:
        for r in s["segs"]:
            for p in r["pts"]:
                if isinstance(p, tuple):
                    m = max(m, abs(p[0]), abs(p[1]))
        if s["start"] is not None:
            m = max(m, abs(s["start"][0]), abs(s["start"][1]))
    return m


def _arc_radius(pts):
    try:
        c = pts[2]
        return max(abs(pts[3][0] - c[0]), abs(pts[3][1] - c[1]), abs(pts[4][0] - c[0]), abs(pts[4][1] - c[1]))
    except Exception:
        return 0.0


def compare(real, model, V, opname, what="model"):
    """real/model: raw partitions. Raises Violation on the first difference of their canonical forms."""
    real = _normalise(real)
    model = _normalise(model)
    if _struct(real) != _struct(model):
        raise V("structure", [opname, what], "after %s: subpaths/kinds/closedness %r, %s says %r" % (opname, _struct(real), what, _struct(model)))
    tol = 1e-9 * max(_scale(real), _scale(model), 1e-300)
    for si, (a, b) in enumerate(zip(real, model)):
        if not ob.close_val(a["start"], b["start"], 0.0, tol):
            raise V("geometry", [opname, what, "start"], "after %s: subpath %d starts at %r, %s says %r" % (opname, si, a["start"], what, b["start"]))
        for gi, (ra, rb) in enumerate(zip(a["segs"], b["segs"])):
            pa, pb = ra["pts"], rb["pts"]
            if ra["k"] == "Arc":
                # defining quantities that reversal must keep or negate: endpoints, centre, sweep
                if not ob.close_val([pa[0], pa[1], pa[2]], [pb[0], pb[1], pb[2]], 0.0, tol) or not ob.close_num(pa[5], pb[5], 1e-9, 1e-12):
                    raise V("geometry", [opname, what, "Arc"], "after %s: subpath %d segment %d Arc %r, %s says %r" % (opname, si, gi, pa, what, pb))
            elif not ob.close_val(pa, pb, 0.0, tol):
                raise V("geometry", [opname, what, ra["k"]], "after %s: subpath %d segment %d %s %r, %s says %r" % (opname, si, gi, ra["k"], pa, what, pb))
            if "samples" in ra and "samples" in rb:
                # interior points of an arc go through atan2/sqrt of the centre parameterisation, which is
                # conditioned like sqrt(machine epsilon) when the radii were scaled up to just reach the
                # endpoints; a dropped sweep negation or swapped endpoints moves samples by O(radius)
                stol = tol * 10 if ra["k"] != "Arc" else 1e-6 * max(_scale(real), _arc_radius(pa))
                if not ob.close_val(ra["samples"], rb["samples"], 0.0, stol):
                    raise V("geometry", [opname, what, ra["k"], "samples"], "after %s: subpath %d segment %d %s traces %r, %s says %r" % (opname, si, gi, ra["k"], ra["samples"], what, rb["samples"]))
        if a["closed"]:
            if not ob.close_val(a["close"], b["close"], 0.0, tol):
                raise V("geometry", [opname, what, "Close"], "after %s: subpath %d close %r, %s says %r" % (opname, si, a["close"], what, b["close"]))


def check_connected(real, V, opname):
    """Connectivity recomputed from public fields."""
    tol = 1e-9 * max(_scale(real), 1e-300)
    prev_end = None
    real = _normalise(real)
    for si, s in enumerate(real):
        cur = s["start"]
        if not s["move"] and si > 0 and s["segs"]:
            # a subpath without its own move begins at the current point left by its predecessor
            if prev_end is not None and not ob.close_val(cur, prev_end, 0.0, tol):
                raise V("connectivity", [opname, "implicit-start"], "after %s: subpath %d has no move and starts at %r but the current point is %r" % (opname, si, cur, prev_end))
        for gi, r in enumerate(s["segs"]):
            st = r["pts"][0]
            en = r["pts"][1] if r["k"] == "Arc" else r["pts"][-1]
            if st is None or en is None:
                raise V("connectivity", [opname, "none-point"], "after %s: subpath %d segment %d (%s) has start %r end %r" % (opname, si, gi, r["k"], st, en))
            if cur is not None and not ob.close_val(st, cur, 0.0, tol):
                raise V("connectivity", [opname, r["k"]], "after %s: subpath %d segment %d (%s) starts at %r, predecessor ended at %r" % (opname, si, gi, r["k"], st, cur))
            cur = en
        if s["closed"]:
            a, b = s["close"]
            if cur is not None and not ob.close_val(a, cur, 0.0, tol):
                raise V("connectivity", [opname, "close-start"], "after %s: subpath %d close starts at %r, last segment ended at %r" % (opname, si, a, cur))
            if s["start"] is not None and not ob.close_val(b, s["start"], 0.0, tol):
                raise V("connectivity", [opname, "close-end"], "after %s: subpath %d close ends at %r, subpath starts at %r" % (opname, si, b, s["start"]))
            cur = s["start"]
        prev_end = cur


# --------------------------------------------------------------------------
# execution
# --------------------------------------------------------------------------


def _observe(p, kind):
    try:
        if kind == "d":
            p.d()
        elif kind == "drel":
            p.d(relative=True)
        elif kind == "bbox":
            p.bbox()
        elif kind == "length":
            p.length(error=1e-2, min_depth=2)
        else:
            p.count_subpaths()
    except Exception:
        return False
    return True


def execute(case, se, out, trace):
    V = core.Violation
    s = gp.render(case["cmds"], case["style"])
    try:
        P = se.Path(s)
    except Exception as e:
        out.count("skip:path-does-not-parse")
        trace.ev("skip", type(e).__name__)
        return
    if case["fragment"] and len(P) > 1 and type(P[0]).__name__ == "Move" and type(P[1]).__name__ not in ("Move", "Close"):
        P = se.Path(*[_copy.copy(x) for x in list(P)[1:]])
        out.count("probe:fragment-without-leading-move")
    if case.get("api_fragment"):
        af = case["api_fragment"]
        n = af["nums"]
        pts = [se.Point(n[0], n[1]), se.Point(n[2], n[3]), se.Point(n[4], n[5]), se.Point(n[6], n[7])]
        if af["kind"] == "Close":
            seg = se.Close(pts[0], pts[1])
        elif af["kind"] == "Line":
            seg = se.Line(pts[0], pts[1])
        elif af["kind"] == "QuadraticBezier":
            seg = se.QuadraticBezier(pts[0], pts[2], pts[1])
        else:
            seg = se.CubicBezier(pts[0], pts[2], pts[3], pts[1])
        # (only behind a move: a drawing segment that does not start where the fragment ends would be no valid path)
        if af["kind"] == "Close":
            # a lone close of non-zero length has no subpath start of its own to return to, the general model has no
            # place for it; what the property says about it is plain: the one drawn segment is replaced by its own
            # reversal, twice restores it, through the path and through the view
            a, b = (n[0], n[1]), (n[2], n[3])
            tol = 1e-12 * max(1.0, abs(n[0]), abs(n[1]), abs(n[2]), abs(n[3]))
            # (through the whole path only the first reversal is judged: it puts a move in front for the close to
            # return to, and "M b, close to a" is no longer a path whose close ends where its subpath began - the
            # second reversal of that has no defined answer; recorded in DESIGN.md 7 as an observation)
            for how in ("view", "path"):
                Q = se.Path(se.Close(se.Point(*a), se.Point(*b)))
                want = [(a, b), (b, a), (a, b)]
                for step in ((1, 2) if how == "view" else (1,)):
                    try:
                        (Q if how == "path" else Q.subpath(0)).reverse()
                    except Exception as e:
                        if core.is_harness_exc(e):
                            raise
                        raise V("raises", ["lone-close", how, type(e).__name__], "reverse() of Path(Close(%r, %r)) through the %s raised %r" % (a, b, how, e))
                    # (a move the library puts in front for the close to return to draws nothing)
                    drawn = [x for x in Q if type(x).__name__ != "Move"]
                    got = [ob.seg_points(x) for x in drawn]
                    ws, we = want[step]
                    if len(drawn) != 1 or type(drawn[0]).__name__ != "Close" or not ob.close_val([got[0][0], got[0][1]], [ws, we], 0.0, tol):
                        raise V("geometry", ["lone-close", how, "step%d" % step], "Path(Close(%r, %r)) reversed %d time(s) through the %s is %s; the drawn segment must run %r -> %r" % (a, b, step, how, [(type(x).__name__, ob.seg_points(x)) for x in Q], ws, we))
            out.count("probe:api-built-lone-close")
            return
        rest = [_copy.copy(x) for x in list(P)] if af["more"] and len(P) and type(P[0]).__name__ == "Move" else []
        P = se.Path(seg, *rest)
        out.count("probe:api-built-fragment-" + af["kind"])
    if case.get("full_arc"):
        # a whole ellipse held as one Arc (start == end, sweep = +-tau): path data cannot spell it, the API can
        fa = case["full_arc"]
        c = se.Point(fa["cx"], fa["cy"])
        st = se.Point(fa["cx"] + fa["rx"], fa["cy"])
        arc = se.Arc(st, se.Point(st), c, se.Point(fa["cx"] + fa["rx"], fa["cy"]), se.Point(fa["cx"], fa["cy"] + fa["ry"]), fa["sweep"])
        P.append(se.Move(end=se.Point(st)))
        P.append(arc)
        if fa.get("more"):
            P.append(se.Line(se.Point(st), se.Point(fa["cx"], fa["cy"])))
        out.count("probe:full-turn-arc-subpath")
    if len(P) == 0:
        out.count("skip:empty")
        return
    ok, msg, nonfinite = ob.all_points_numeric(list(P))
    if not ok or nonfinite:
        out.count("skip:not-numeric")
        return
    try:
        model = canon_form(P)
    except Exception as e:
        out.count("skip:cannot-sample")
        trace.ev("skip-sample", type(e).__name__)
        return
    kinds0 = ob.kinds(P)
    trace.ev("path", s, kinds0)
    if any(not sub["move"] and i > 0 for i, sub in enumerate(model)):
        out.count("probe:subpath-without-own-move")
    if any(sub["closed"] and sub["close"][0] != sub["close"][1] for sub in model):
        out.count("probe:nonzero-length-close")
    if any(sub["closed"] and sub["close"][0] == sub["close"][1] for sub in model):
        out.count("probe:zero-length-close")
    if any(not sub["segs"] and not sub["closed"] for sub in model):
        out.count("probe:move-only-subpath")
    if any(not sub["segs"] and sub["closed"] for sub in model):
        out.count("probe:close-only-subpath")

    views = None
    last_rev = None  # (handle id, canonical form before the reversal)
    opkinds = []
    checked = 0
    for op in case["ops"]:
        name = op[0]
        opkinds.append(name)
        if len(opkinds) <= 3:
            out.state("%s|%s" % (kinds0, ",".join(opkinds)))
        out.count("op:" + name)
        if name == "obs":
            before = ob.path_snap(list(P))
            _observe(P, op[1])
            after = ob.path_snap(list(P))
            okk, msg = ob.snaps_equal(before, after, rel=0.0)
            if not okk:
                raise V("observer-mutates", [op[1]], "%s() changed the path: %s" % (op[1], msg))
            trace.ev("obs", op[1])
            continue
        if name == "views":
            try:
                views = [P.subpath(i) for i in range(P.count_subpaths())]
            except Exception as e:
                raise V("raises", ["subpath", type(e).__name__, core.exc_sig(e)[1]], "taking subpath views of %s raised %r" % (ob.kinds(P), e))
            trace.ev("views", len(views))
            continue
        if name == "copy":
            Q = _copy.copy(P)
            if _struct(_normalise(canon_form(Q, False))) != _struct(_normalise(model)):
                # copy is C18's subject: not judged here, the history just stays on the original
                out.count("skip:copy-changed-structure")
                continue
            P = Q
            model = canon_form(P)
            views = None
            last_rev = None
            trace.ev("copy")
            continue
        if name == "xf":
            try:
                P *= op[1]
                P.reify()
                real = canon_form(P)
            except Exception as e:
                out.count("skip:transform-raises")
                trace.ev("xf-raises", type(e).__name__)
                return
            if _struct(_normalise(real)) != _struct(_normalise(model)):
                out.count("skip:transform-changed-structure")
                return
            model = real  # re-base: what a transform does to geometry is C02's subject
            last_rev = None
            trace.ev("xf", op[1])
            continue
        # ---- reversals ----
        before_form = canon_form(P, False)
        if name == "rev":
            handle = "whole"
            snap_out = None
            began_with_move = type(P[0]).__name__ == "Move"
            try:
                r = P.reverse()
            except Exception as e:
                raise V("raises", ["reverse", type(e).__name__, core.exc_sig(e)[1]], "reverse() of %s raised %r" % (P.d() if _safe_d(P) else ob.kinds(P), e))
            model = model_rev_all(model)
            views = None
            i = None
            if began_with_move and len(P) and type(P[0]).__name__ != "Move":
                raise V("structure", ["rev", "leading-move-lost"], "a path that began with a move reverses into %s, which begins with a %s: the point it starts from is only implied (d() no longer states it)" % (ob.kinds(P), type(P[0]).__name__))
        else:
            n = len(model)
            i = op[1] % n
            if name == "stale":
                if views is None or i >= len(views):
                    out.count("skip:no-valid-stale-view")
                    continue
                view = views[i]
                out.count("probe:stale-view-used")
            else:
                try:
                    nlib = P.count_subpaths()
                    if nlib != n:
                        raise V("structure", ["count_subpaths"], "count_subpaths()=%d for %s; the SVG partition has %d" % (nlib, ob.kinds(P), n))
                    view = P.subpath(i - n if case.get("negative_index") else i)
                except core.Violation:
                    raise
                except Exception as e:
                    raise V("raises", ["subpath", type(e).__name__, core.exc_sig(e)[1]], "subpath(%d) of %s raised %r" % (i, ob.kinds(P), e))
            handle = "sub%d" % i
            lo, hi = model[i]["lo"], model[i]["hi"]
            allsegs = list(P)
            snap_out = (ob.path_snap(allsegs[:lo]), ob.path_snap(allsegs[hi + 1 :]), lo, hi)
            try:
                view.reverse()
            except Exception as e:
                raise V("raises", ["subpath-reverse", type(e).__name__, core.exc_sig(e)[1]], "subpath(%d).reverse() of %r [%s] raised %r" % (i, _safe_d(P), ob.kinds(P), e))
            model = model[:i] + [model_rev_sub(model[i])] + model[i + 1 :]
        trace.ev(name, i, ob.kinds(P))
        # (a)(b) against the model
        try:
            real = canon_form(P)
        except core.Violation:
            raise
        except Exception as e:
            raise V("raises", ["point-after-reverse", type(e).__name__, core.exc_sig(e)[1]], "evaluating point(t) on the reversed path [%s] raised %r" % (ob.kinds(P), e))
        compare(real, model, V, name)
        model = real  # re-base on the verified state: later view indices refer to the real partition
        # (c) connectivity
        check_connected(real, V, name)
        # (a move's start is a back link that draws nothing; the library itself leaves it stale when a closed subpath
        # is reversed through its view, so it is not part of "a connected path" here - see DESIGN.md 11)
        # (d) a subpath reversal changes only that subpath
        if snap_out is not None:
            pre, post, lo, hi = snap_out
            allsegs = list(P)
            okk, msg = ob.snaps_equal(ob.path_snap(allsegs[:lo]), pre, rel=0.0, skip_move_start=True)
            if not okk:
                raise V("isolation", ["before-window"], "subpath(%d).reverse() changed a segment before the subpath: %s" % (i, msg))
            okk, msg = ob.snaps_equal(ob.path_snap(allsegs[hi + 1 :]), post, rel=0.0, skip_move_start=True)
            if not okk:
                raise V("isolation", ["after-window"], "subpath(%d).reverse() changed a segment after the subpath: %s" % (i, msg))
        # (g) the path's own parameterisation follows the reversal: point(t) of the very object (which may
        # carry a length cache filled by an earlier observer) agrees with point(t) of a cache-free copy
        scale_now = max(_scale(real), 1e-300)
        # a path object built anew from copies of the segments: it cannot have inherited any cache
        segs_now = [_copy.copy(x) for x in P]
        fresh = se.Path(*segs_now) if len(segs_now) != 1 else se.Path(segs_now[0])
        try:
            # fill both length caches with the same cheap settings; point(t) then only looks them up
            fresh.length(error=1e-2 * scale_now, min_depth=1)
            cheap = True
        except Exception:
            cheap = False
        if cheap:
            try:
                P.length(error=1e-2 * scale_now, min_depth=1)
            except Exception as e:
                raise V("parameterisation", ["raises", type(e).__name__, name], "after %s, length() of the path raised %r while a fresh copy of it measures fine" % (name, e))
        for t in (0.15, 0.5, 0.85) if cheap else ():
            try:
                want = fresh.point(t, error=1e-2 * scale_now)
            except Exception:
                out.count("skip:path-point-unavailable")
                break
            try:
                got = P.point(t, error=1e-2 * scale_now)
            except Exception as e:
                raise V("parameterisation", ["raises", type(e).__name__, name], "after %s, point(%s) of the path raised %r while a fresh copy of it answers %r (stale cached lengths?)" % (name, t, e, ob.pt(want)))
            if want is None or got is None:
                continue
            if not ob.close_val(ob.pt(got), ob.pt(want), 0.0, 0.03 * scale_now):
                raise V("parameterisation", ["stale", name], "after %s, point(%s) of the path is %r but a fresh copy of the same path gives %r: the path object does not trace its own (reversed) geometry" % (name, t, ob.pt(got), ob.pt(want)))
        else:
            out.count("probe:path-point-checked")
        try:
            bb_want = fresh.bbox()
        except Exception:
            bb_want = "unavailable"
        if bb_want != "unavailable":
            try:
                bb_got = P.bbox()
            except Exception as e:
                raise V("parameterisation", ["bbox-raises", type(e).__name__, name], "after %s, bbox() of the path raised %r while a fresh copy answers %r" % (name, e, bb_want))
            if not ob.close_val(bb_got, bb_want, 1e-9, 1e-9 * scale_now):
                raise V("parameterisation", ["bbox", name], "after %s, bbox() of the path is %r but a fresh copy of the same path gives %r" % (name, bb_got, bb_want))
        # (e) involution
        if last_rev is not None and last_rev[0] == handle:
            compare(canon_form(P, False), last_rev[1], V, name + "-twice", what="original")
            out.count("probe:double-reversal-checked")
            last_rev = None
        else:
            last_rev = (handle, before_form)
        checked += 1
    if checked:
        out.count("probe:reversals-checked", checked)


def _safe_d(p):
    try:
        return p.d()
    except Exception:
        return None


# --------------------------------------------------------------------------
# shrinking
# --------------------------------------------------------------------------


def shrink(case):
    ops = case["ops"]
    for cand in core.ddmin_list(ops):
        c = _copy.deepcopy(case)
        c["ops"] = cand
        yield c
    cmds = case["cmds"]
    for cand in core.ddmin_list(cmds):
        if cand:
            c = _copy.deepcopy(case)
            c["cmds"] = cand
            yield c
    if case.get("fragment"):
        c = _copy.deepcopy(case)
        c["fragment"] = False
        yield c
    if case.get("api_fragment"):
        c = _copy.deepcopy(case)
        del c["api_fragment"]
        yield c
        if case["api_fragment"]["more"]:
            c = _copy.deepcopy(case)
            c["api_fragment"]["more"] = False
            yield c
    if case.get("full_arc"):
        c = _copy.deepcopy(case)
        del c["full_arc"]
        yield c
    if case["style"] != 0:
        c = _copy.deepcopy(case)
        c["style"] = 0
        yield c
    for ci, cmd in enumerate(cmds):
        if len(cmd["g"]) > 1:
            c = _copy.deepcopy(case)
            c["cmds"][ci]["g"] = cmd["g"][:1]
            yield c
    for ci, cmd in enumerate(cmds):
        for gi, g in enumerate(cmd["g"]):
            for ai, a in enumerate(g):
                if cmd["c"].upper() == "A" and ai in (3, 4):
                    continue
                if a not in ("0", "1", "2", "3"):
                    for simple in ("0", "1", "2", "3"):
                        if simple == "0" and cmd["c"].upper() == "A" and ai in (0, 1):
                            continue  # zero radii are outside the generated domain
                        c = _copy.deepcopy(case)
                        c["cmds"][ci]["g"][gi][ai] = simple
                        yield c
    for oi, op in enumerate(ops):
        if op[0] in ("sub", "stale") and op[1] > 3:
            c = _copy.deepcopy(case)
            c["ops"][oi][1] = op[1] % 4
            yield c
