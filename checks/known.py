"""
Known findings: genuine defects of svgelements recorded (not repaired) in
/verif/known_findings.json.  A violation is attributed to a known finding only
if property and oracle tag match AND the named predicate holds on the failing
(case, outcome).  Nothing here ever writes the file.
"""
import json
import os

_HERE = os.path.dirname(os.path.dirname(os.path.abspath(__file__)))
_FILE = os.path.join(_HERE, "known_findings.json")
_cache = None


def load():
    global _cache
    if _cache is None:
        try:
            with open(_FILE) as f:
                _cache = json.load(f)
        except FileNotFoundError:
            _cache = {"known": [], "fixed": []}
    return _cache


def known_for(prop):
    return [k for k in load().get("known", []) if k["property"] == prop]


def match(prop, case, od):
    """Return the id of the known finding that explains this violation, or None."""
    for k in known_for(prop):
        if k["oracle"] != od["oracle"]:
            continue
        pred = PREDICATES.get(k["predicate"])
        if pred is None:
            continue
        try:
            if pred(case, od):
                return k["id"]
        except Exception:
            continue
    return None


# --------------------------------------------------------------------------
# predicates: (case, outcome-dict) -> bool
# --------------------------------------------------------------------------

PREDICATES = {}


def predicate(fn):
    PREDICATES[fn.__name__] = fn
    return fn


def _has_moveless_subpath(cmds):
    """A drawing command directly after a close: a subpath without its own move."""
    for i in range(1, len(cmds)):
        prev, cur = cmds[i - 1], cmds[i]
        if (prev["c"] in "Zz" or prev.get("zc")) and cur["c"] not in "MmZz":
            return True
    return False


@predicate
def c16_view_reverse_detaches_moveless_subpath(case, od):
    sig = od.get("sig") or []
    if len(sig) < 2 or sig[0] not in ("sub", "stale") or sig[1] != "implicit-start":
        return False
    return _has_moveless_subpath(case.get("cmds", []))


@predicate
def c20_non_scaling_stroke(case, od):
    """A stroke-width difference on a shape that carries vector-effect="non-scaling-stroke" (the check tags the
    signature from the source element's own values). Any other stroke-width difference is not matched."""
    sig = od.get("sig") or []
    return len(sig) >= 3 and sig[0] == "stroke-width" and sig[2] == "non-scaling-stroke"


@predicate
def c20_arc_radii_six_digits(case, od):
    sig = od.get("sig") or []
    return len(sig) >= 3 and sig[0] == "geometry" and sig[1] == "Path" and sig[2] == "Arc-shape-six-digit-radii"
