"""
C20 - writing a document and parsing it back preserves shapes and paint.

Read as a storage property: once write_xml / string_xml has returned, the bytes
that have reached the (simulated) disk are a well-formed document that parses
back to the same shapes, and this is a fixed point from the second generation
on.  History: write -> [crash-after-ack freeze] -> read back -> compare, three
generations, over several write and read channels, with short I/O and injected
I/O errors.  DESIGN.md 5.6.
"""
import copy as _copy
import errno
import gzip
import io
import os
import xml.etree.ElementTree as ET

from sim import core, gen_doc as gd, gen_path as gp, observe as ob, simfs

PROPERTY = "C20"
LEVEL = "fault_enumeration"
QUICK_RUNS = 40000
THOROUGH_RUNS = 1200000
RULE = (
    "seeded histories: generation 0 is a fault-free generated document parsed with scheduler-chosen reify/ppi, or a tree "
    "built through the constructors (SVG/Group holding every shape kind, transforms of either determinant, viewBox "
    "present/absent, unit-bearing lengths); three generations of write -> freeze disk image at the moment the call "
    "returns (no GC, nothing closed on the library's behalf) -> read back -> compare. Write channels: string_xml, "
    "write_xml to /simfs/*.svg, *.svgz, a path-like name, an open text or binary simulated file, with "
    "pretty/xml_declaration/encoding knobs; read channels: file name, short-read stream, gzip over a short-read "
    "stream. Faults: short raw writes/reads, OSError(ENOSPC|EIO) at the k-th raw write, error on close. Oracles: "
    "acknowledged write is a complete well-formed file, no silent loss under I/O errors, round trip of count/order/"
    "geometry/paint/ids, fixed point from generation 1. distinct = distinct (source kind, shape kinds, transform "
    "class, viewBox, reify, write channel, read channel, fault kind) cells; non-trivial = at least one generation "
    "was written and read back."
)
ASSUMPTIONS = [
    "geometry tolerance 2e-6*(1+max|coordinate|)*max(1, viewport scale): the six-decimal matrices the property names; 1e-9 where no matrix is written",
    "an I/O error may surface as an exception; the property says nothing about which one or about partial files after a reported failure",
    "the element class is recorded but not compared (a use legitimately comes back as a group); text elements are not shapes and are not compared",
]

WRITE_CH = ["string", "file", "file", "svgz", "svgz", "pathlike", "fobj-text", "fobj-binary"]
READ_CH = ["name", "stream"]
TRS = ["", "", "translate(10,20)", "scale(2)", "scale(0.5,3)", "rotate(30)", "scale(-1,1)", "matrix(1,0.5,-0.3,2,5,6)", "rotate(45) scale(2,0.5)", "scale(1,-1) translate(0,-50)", "scale(0.01)", "scale(100)"]
# paint is always stated in built trees: an unset fill/stroke (None) has no defined rendering to preserve
FILLS = ["red", "#123456", "none", "blue", "#00ff0080", "rgb(1,2,3)", "black", "#12345600", "rgba(9,8,7,0)", "#abcdefff"]


class PathLike:
    def __init__(self, name):
        self.name = name

    def __fspath__(self):
        return self.name


# --------------------------------------------------------------------------
# generation
# --------------------------------------------------------------------------


def _n(ch, lo=-100, hi=300):
    return ch.int(lo * 10, hi * 10) / 10.0


def _built_shape(ch):
    k = ch.choice(["Rect", "RectR", "Circle", "Ellipse", "SimpleLine", "Polyline", "Polygon", "Path"])
    spec = {"kind": k, "nums": [_n(ch) for _ in range(10)], "pos": [abs(_n(ch)) + 0.5 for _ in range(4)], "tr": ch.choice(TRS), "fill": ch.choice(FILLS), "stroke": ch.choice(FILLS), "sw": ch.choice([None, 1, 2.5, 0.25, 0]), "id": ch.choice([None, None, "s%d" % ch.int(1, 99), "s%d" % ch.int(1, 99), "", "0"])}
    if k == "Path":
        spec["d"] = gp.render(gp.gen_cmds(ch, ch.int(2, 6), mag=100.0, allow_zc=False, arc_zero=False), 0)
        spec["d_kw"] = ch.coin(0.4)
    if k in ("Rect", "Circle", "Ellipse") and ch.coin(0.05):
        # a size of zero: the shape renders nothing, and must not come back as a shape of default size
        spec["pos"][ch.int(0, 1)] = 0
    if ch.coin(0.08):
        # magnitudes that leave the plain decimal spelling (below 1e-4, from 1e12): exponent forms in the written numbers
        f = ch.choice([1e-10, 1e-20, 1e-7, 1e12])
        spec["nums"] = [v * f for v in spec["nums"]]
        if k in ("Polyline", "Polygon", "SimpleLine"):
            spec["tiny"] = True
    return spec


def _built_tree(ch):
    root = {"width": ch.choice([None, 200, "10cm", 300]), "height": ch.choice([None, 100, "5cm", 300]), "viewbox": ch.choice([None, None, "0 0 100 100", "0 0 400 100", "-50 -50 100 100"])}
    items = []
    for _ in range(ch.int(1, 6)):
        if ch.coin(0.2):
            items.append({"kind": "Group", "tr": ch.choice(TRS), "kids": [_built_shape(ch) for _ in range(ch.int(1, 3))]})
        else:
            items.append(_built_shape(ch))
    # a built document is not necessarily rendered: its sizes may still be lengths with units or percentages
    root["render"] = ch.coin(0.5)
    return {"root": root, "items": items}


def generate(seed, index, tier):
    ch = core.Chooser(seed)
    case = {}
    if index % 3 == 2:
        case["source"] = "built"
        case["tree"] = _built_tree(ch)
    else:
        case["source"] = "doc"
        case["doc"] = gd.gen_doc(ch, max_elems=ch.int(2, 12), max_depth=3, extra_kinds=index % 9 in (1, 4), use_heavy=index % 9 == 7)
        case["reify"] = ch.coin(0.6)
        case["ppi"] = ch.choice([96.0, 96.0, 72.0])
    gens = []
    for g in range(3):
        gens.append({
            "write": WRITE_CH[(index // 3 + g * 3) % len(WRITE_CH)] if g == 0 else ch.choice(WRITE_CH),
            "read": ch.choice(READ_CH),
            "pretty": ch.coin(0.5),
            "decl": ch.choice([None, True, False]),
            "encoding": ch.choice([None, None, "utf-8", "unicode", "us-ascii"]),
            "wsizes": [ch.choice([None, None, 1, 7, 64, 4096]) for _ in range(ch.int(1, 3))],
            "rsizes": [ch.choice([None, 1, 5, 16, 1000]) for _ in range(ch.int(1, 3))],
            "buffer": ch.choice([None, 1, 16, 8192]),
        })
    case["gens"] = gens
    # the tree is edited through its objects between building/parsing and writing (ids, paint, transforms,
    # geometry, the svg's own size and viewBox): what is written must follow the objects, not their source text
    touch = []
    if index % 4 in (1, 3):
        for _ in range(ch.int(1, 4)):
            k = ch.weighted([("id", 3), ("fill", 2), ("stroke", 2), ("sw", 2), ("imul", 3), ("reify", 1), ("attr", 2), ("svg_size", 2), ("svg_viewbox", 2), ("append", 1), ("clear_id", 1)])
            if k == "id":
                touch.append(["id", ch.int(0, 20), ch.choice(["t%d" % ch.int(0, 999), "t%d" % ch.int(0, 999), "", "0"])])
            elif k == "clear_id":
                touch.append(["id", ch.int(0, 20), None])
            elif k in ("fill", "stroke"):
                touch.append([k, ch.int(0, 20), ch.choice(FILLS)])
            elif k == "sw":
                touch.append(["sw", ch.int(0, 20), ch.choice([1.0, 0.5, 2.0, 3.25, 1, 0, 0.0])])
            elif k == "imul":
                touch.append(["imul", ch.int(0, 20), ch.choice([t for t in TRS if t])])
            elif k == "reify":
                touch.append(["reify", ch.int(0, 20)])
            elif k == "attr":
                touch.append(["attr", ch.int(0, 20), _n(ch)])
            elif k == "svg_size":
                touch.append(["svg_size", ch.choice([100, 200, 640, 50.5]), ch.choice([100, 480, 75])])
            elif k == "svg_viewbox":
                touch.append(["svg_viewbox", ch.choice([None, "0 0 100 100", "0 0 50 200", "-10 -10 300 300"])])
            else:
                touch.append(["append", _built_shape(ch)])
    case["touch"] = touch
    f = index % 8
    fault = {"kind": "none"}
    if f == 5:
        fault = {"kind": "write-error", "gen": ch.int(0, 1), "at_frac": ch.uniform(0.0, 1.0), "errno": ch.choice([errno.ENOSPC, errno.EIO])}
    elif f == 6:
        fault = {"kind": "close-error", "gen": ch.int(0, 1)}
    case["fault"] = fault
    return case


# --------------------------------------------------------------------------
# building generation 0
# --------------------------------------------------------------------------


def _build_shape(se, spec):
    k = spec["kind"]
    n, p = spec["nums"], spec["pos"]
    kw = {}
    if k == "Rect":
        s = se.Rect(n[0], n[1], p[0], p[1])
    elif k == "RectR":
        s = se.Rect(n[0], n[1], p[0] + 10, p[1] + 10, 2, 3)
    elif k == "Circle":
        s = se.Circle(n[0], n[1], p[0])
    elif k == "Ellipse":
        s = se.Ellipse(n[0], n[1], p[0], p[1])
    elif k == "SimpleLine":
        s = se.SimpleLine(n[0], n[1], n[2], n[3])
    elif k == "Polyline":
        s = se.Polyline(*n[:8])
    elif k == "Polygon":
        s = se.Polygon(*n[:8])
    elif spec.get("d_kw"):
        s = se.Path(d=spec["d"])
    else:
        s = se.Path(spec["d"])
    if spec["tr"]:
        s *= spec["tr"]
    if spec["fill"] is not None:
        s.fill = se.Color(spec["fill"])
    if spec["stroke"] is not None:
        s.stroke = se.Color(spec["stroke"])
    if spec["sw"] is not None:
        s.stroke_width = spec["sw"]
    if spec["id"] is not None:
        s.id = spec["id"]
    return s


def build_tree(se, tree):
    r = tree["root"]
    kw = {}
    if r["width"] is not None:
        kw["width"] = r["width"]
    if r["height"] is not None:
        kw["height"] = r["height"]
    if r["viewbox"]:
        kw["viewBox"] = r["viewbox"]
    svg = se.SVG(**kw)
    if r.get("render", True):
        svg.render(ppi=96.0, width=1000, height=1000, viewbox=svg.viewbox)
    for it in tree["items"]:
        if it["kind"] == "Group":
            g = se.Group()
            for ks in it["kids"]:
                g.append(_build_shape(se, ks))
            if it["tr"]:
                g *= it["tr"]
            svg.append(g)
        else:
            svg.append(_build_shape(se, it))
    return svg


# --------------------------------------------------------------------------
# one write -> freeze -> read
# --------------------------------------------------------------------------


def apply_touch(se, svg, ops, out=None):
    """Edits of the tree through its objects. Returns the number applied."""
    n = 0

    def disabled():
        # a root of zero size renders nothing (the reader drops its content): what is appended to it, or how its
        # viewport is re-stated, is not a "rendered shape" of the property; such roots keep only per-shape edits
        try:
            vb = svg.viewbox
            return svg.width == 0 or svg.height == 0 or (vb is not None and (vb.width == 0 or vb.height == 0))
        except Exception:
            return True

    for op in ops:
        shapes = [e for e in svg.elements() if isinstance(e, se.Shape)]
        name = op[0]
        if name in ("svg_size", "svg_viewbox", "append") and disabled():
            if out is not None:
                out.count("skip:touch-on-disabled-root")
            continue
        try:
            if name in ("id", "fill", "stroke", "sw", "imul", "reify", "attr"):
                if not shapes:
                    continue
                e = shapes[op[1] % len(shapes)]
                if name == "id":
                    e.id = op[2]
                elif name == "fill":
                    e.fill = se.Color(op[2])
                elif name == "stroke":
                    e.stroke = se.Color(op[2])
                elif name == "sw":
                    e.stroke_width = op[2]
                elif name == "imul":
                    e *= op[2]
                elif name == "reify":
                    e.reify()
                else:
                    for a in ("x", "cx", "x1"):
                        if hasattr(e, a) and isinstance(getattr(e, a), (int, float)):
                            setattr(e, a, op[2])
                            break
                    else:
                        continue
            elif name == "svg_size":
                svg.width, svg.height = op[1], op[2]
            elif name == "svg_viewbox":
                svg.viewbox = se.Viewbox(op[1]) if op[1] else None
            elif name == "append":
                svg.append(_build_shape(se, op[1]))
            n += 1
            if out is not None:
                out.count("op:touch-" + name)
        except Exception:
            if out is not None:
                out.count("skip:touch-raises")
    return n


def _viewport_scale(se, svg):
    """Largest magnification any chain of nested viewports applies: the written matrix of a shape undoes the
    *product* of the viewport transforms around it, and its six decimals are magnified by that product on the
    way back (found by the thorough soak: three nested viewBoxes, 4 x 3.3 x 1.8)."""

    def own(e):
        try:
            vt = e.viewbox_transform
            if vt:
                mx = se.Matrix(vt)
                return max(1.0, abs(mx.a), abs(mx.b), abs(mx.c), abs(mx.d))
        except Exception:
            pass
        return 1.0

    best = 1.0
    stack = [(svg, 1.0)]
    while stack:
        node, acc = stack.pop()
        if isinstance(node, se.SVG):
            acc *= own(node)
            best = max(best, acc)
        if isinstance(node, list):
            for k in node:
                stack.append((k, acc))
    return best


def _local_scale(se, svg):
    """Largest absolute untransformed coordinate of any shape (what the written matrices multiply)."""
    m = 0.0
    for e in svg.elements():
        if isinstance(e, se.Shape):
            try:
                for s in se.Path(e).segments(transformed=False):
                    for pnt in ob.seg_points(s):
                        if isinstance(pnt, tuple):
                            for v in pnt:
                                if ob.finite(v):
                                    m = max(m, abs(v))
                t = e.transform
                m = max(m, abs(t.e) if ob.is_num(t.e) else 0.0, abs(t.f) if ob.is_num(t.f) else 0.0)
            except Exception:
                pass
    return m


def write_generation(se, svg, g, plan, out, trace):
    """Returns (kind, payload): ('text', str) for string_xml, ('image', bytes, name) for files,
    or ('raised', exception)."""
    ch = g["write"]
    out.count("op:write-" + ch)
    kw = {}
    if g["decl"] is not None:
        kw["xml_declaration"] = g["decl"]
    if g["encoding"] is not None:
        kw["encoding"] = g["encoding"]
    if ch in ("svgz", "fobj-binary") and kw.get("encoding") == "unicode":
        kw["encoding"] = "utf-8"  # text into a binary file is the caller's mistake, not a case
    if ch == "string":
        try:
            return ("text", svg.string_xml(), None, None)
        except Exception as e:
            return ("raised", e, None, None)
    disk = simfs.SimDisk(plan)
    name = "/simfs/out.svgz" if ch in ("svgz",) else "/simfs/out.svg"
    exc = None
    with disk:
        try:
            if ch in ("file", "svgz"):
                svg.write_xml(name, pretty=g["pretty"], **kw)
            elif ch == "pathlike":
                svg.write_xml(PathLike(name), pretty=g["pretty"], **kw)
            elif ch == "fobj-text":
                kw2 = dict(kw)
                kw2["encoding"] = "unicode"
                f = open(name, "w", encoding="utf-8")
                try:
                    svg.write_xml(f, pretty=g["pretty"], **kw2)
                finally:
                    f.close()  # the caller owns this file: acknowledgement includes its close
            else:
                kw2 = dict(kw)
                if kw2.get("encoding") == "unicode":
                    kw2["encoding"] = "utf-8"
                f = open(name, "wb")
                try:
                    svg.write_xml(f, pretty=g["pretty"], **kw2)
                finally:
                    f.close()
        except Exception as e:
            exc = e
        # crash-after-ack: freeze what has reached the disk at this very moment
        image = disk.image(name)
    for k, v in disk.fired.items():
        if v:
            out.count("fault:" + k, v)
    trace.ev("write", ch, len(image), disk.raw_writes, "exc" if exc else "ok")
    if exc is not None:
        return ("raised", exc, image, disk)
    return ("image", image, name, disk)


def read_back(se, kind, payload, name, g, out, reify, ppi):
    out.count("op:read-" + g["read"])
    counter = {}
    if kind == "text":
        src = io.StringIO(payload) if g["read"] == "name" else simfs.SimStream(payload, g["rsizes"], counter)
        return se.SVG.parse(src, reify=reify, ppi=ppi)
    data = payload
    gz = data[:2] == b"\x1f\x8b"
    if g["read"] == "name" and not gz:
        disk = simfs.SimDisk(simfs.FaultPlan(read_sizes=g["rsizes"], buffer_size=g["buffer"]))
        disk.put("/simfs/in.svg", data)
        with disk:
            r = se.SVG.parse("/simfs/in.svg", reify=reify, ppi=ppi)
        if disk.fired["short_read"]:
            out.count("fault:short_read", disk.fired["short_read"])
        return r
    if gz:
        # gzip needs a file whose read(n) is complete short of EOF: the real BufferedReader over the
        # short-reading raw file gives it that, and hands svgelements an unseekable decompressing stream
        disk = simfs.SimDisk(simfs.FaultPlan(read_sizes=g["rsizes"], buffer_size=g["buffer"]))
        disk.put("/simfs/in.svgz", data)
        with disk:
            with gzip.open("/simfs/in.svgz", "rb") as st:
                r = se.SVG.parse(st, reify=reify, ppi=ppi)
        if disk.fired["short_read"]:
            out.count("fault:short_read", disk.fired["short_read"])
        return r
    st = simfs.SimStream(data, g["rsizes"], counter)
    r = se.SVG.parse(st, reify=reify, ppi=ppi)
    if counter.get("short_read"):
        out.count("fault:short_read", counter["short_read"])
    return r


def _complete(data):
    """(ok, text-or-message): the image is a complete file: for gzip a complete stream; well-formed XML."""
    if data[:2] == b"\x1f\x8b":
        try:
            data = gzip.decompress(data)
        except Exception as e:
            return False, "gzip stream incomplete or corrupt: %r" % e
    try:
        ET.fromstring(data)
    except Exception as e:
        return False, "not well-formed XML: %r (%d bytes, tail %r)" % (e, len(data), data[-40:])
    return True, data


def _first_diff(a, b):
    i = 0
    n = min(len(a), len(b))
    while i < n and a[i] == b[i]:
        i += 1
    return a[max(0, i - 40) : i + 40], b[max(0, i - 40) : i + 40]


def _zero_size(se, e):
    if isinstance(e, se.Rect):
        return e.width == 0 or e.height == 0
    if isinstance(e, (se.Circle, se.Ellipse)):
        return e.rx == 0 or e.ry == 0
    return False


def _shapes(se, svg):
    # rendered shapes: a rect or ellipse of zero size is not one (SVG: "a value of zero disables rendering")
    return [r for r in ob.observe_doc(se, svg, keep_path=True, rendered_stroke=True) if "geom" in r and not _zero_size(se, r.get("_elem"))]


def _six_digit_arc(se, x, i):
    """What segment i (an Arc) of the source path becomes when its radii and rotation travel through
    d(transformed=False), which prints them with six significant digits (%G), and the path's transform
    is applied afterwards: the library's own parse of its own text, in the frame the writer uses."""
    try:
        e = x.get("_elem")
        q = se.Path(e)
        seg = q.segments(transformed=False)[i]
        ref = se.Path("M %s %s" % (seg.start, seg.d()))
        arc = ref[1]
        arc *= q.transform
        return ob.arc_samples(arc)
    except Exception:
        return None


def _full_precision_arc(se, x, i):
    """The same journey with the radii and rotation spelled with 17 significant digits: if that gives the source
    arc back, six-digit rounding is the only thing that stands between the source and what was read."""
    try:
        import math

        q = se.Path(x.get("_elem"))
        seg = q.segments(transformed=False)[i]
        text = "M %r,%r A %r,%r %r %d,%d %r,%r" % (
            float(seg.start.x), float(seg.start.y), float(seg.rx), float(seg.ry), math.degrees(float(seg.get_rotation())),
            1 if abs(seg.sweep) > math.pi else 0, 1 if seg.sweep > 0 else 0, float(seg.end.x), float(seg.end.y))
        arc = se.Path(text)[1]
        arc *= q.transform
        return ob.arc_samples(arc)
    except Exception:
        return None


def compare_generations(se, a, b, tol, V, tag, what):
    # serials identify elements of generated documents; elements built or appended through the API have none (and a
    # reader hands them an enclosing element's): only where both sides have their own serial is it compared
    if len(a) != len(b) or any(x["n"] != y["n"] for x, y in zip(a, b) if x["n"] is not None and x.get("own_n") and y.get("own_n")):
        raise V(tag, ["sequence"], "%s: shapes differ in number/order: %s then %s" % (what, [(r["n"], r["cls"]) for r in a], [(r["n"], r["cls"]) for r in b]))
    for x, y in zip(a, b):
        for k in ("fill", "stroke", "id"):
            if x[k] != y[k]:
                raise V(tag, [k, x["cls"]], "%s: shape data-n=%s (%s -> %s) %s %r became %r" % (what, x["n"], x["cls"], y["cls"], k, x[k], y[k]))
        if not ob.close_val(x["sw"], y["sw"], 1e-6, tol):
            nss = []
            try:
                if "non-scaling-stroke" in str(x["_elem"].values.get("vector-effect", "")):
                    nss = ["non-scaling-stroke"]
            except Exception:
                pass
            raise V(tag, ["stroke-width", x["cls"]] + nss, "%s: shape data-n=%s (%s%s) stroke width %r became %r" % (what, x["n"], x["cls"], ", vector-effect non-scaling-stroke" if nss else "", x["sw"], y["sw"]))
        ga, gb = x["geom"], y["geom"]
        if len(ga) != len(gb) or [k for k, _ in ga] != [k for k, _ in gb]:
            raise V(tag, ["geometry-structure", x["cls"]], "%s: shape data-n=%s (%s -> %s) segments %s became %s" % (what, x["n"], x["cls"], y["cls"], [k for k, _ in ga], [k for k, _ in gb]))
        for i, ((ka, pa), (kb, pb)) in enumerate(zip(ga, gb)):
            if ka == "Move":
                pa, pb = pa[1:], pb[1:]
            if ka == "Arc":
                # endpoints and sweep to the matrix precision; centre/axes are derived quantities
                pa2, pb2 = [pa[0], pa[1]], [pb[0], pb[1]]
                if not ob.close_val(pa2, pb2, 0.0, tol):
                    raise V(tag, ["geometry", x["cls"], ka], "%s: shape data-n=%s (%s) segment %d Arc endpoints %r became %r (tolerance %.3g)" % (what, x["n"], x["cls"], i, pa2, pb2, tol))
                # what is drawn in between: centre, interior points, sweep (which pair of conjugate radii stands for
                # the ellipse is a matter of representation)
                try:
                    sa, sb = ob.arc_samples(x["_path"][i]), ob.arc_samples(y["_path"][i])
                except Exception:
                    sa, sb = [pa[2], pa[3], pa[4], None, pa[5]], [pb[2], pb[3], pb[4], None, pb[5]]

                def near(u, v):
                    return ob.close_val(u[:4], v[:4], 0.0, tol * 50) and ob.close_num(u[4], v[4], 0.0, 1e-4)

                if not near(sa, sb):
                    six = _six_digit_arc(se, x, i) if x["cls"] == "Path" else None
                    full = _full_precision_arc(se, x, i) if six is not None else None
                    if six is not None and full is not None and near(full, sa) and near(six, sb):
                        raise V(tag, ["geometry", x["cls"], "Arc-shape-six-digit-radii"], "%s: shape data-n=%s (Path) segment %d: the arc came back exactly as the six-significant-digit spelling of its radii/rotation in d() draws it (a 17-digit spelling gives the source arc): centre/interior points/sweep %r became %r (tolerance %.3g)" % (what, x["n"], i, sa, sb, tol * 50))
                    raise V(tag, ["geometry", x["cls"], "Arc-shape"], "%s: shape data-n=%s (%s) segment %d Arc centre/interior points/sweep %r became %r (tolerance %.3g)" % (what, x["n"], x["cls"], i, sa, sb, tol * 50))
            elif not ob.close_val(pa, pb, 0.0, tol):
                raise V(tag, ["geometry", x["cls"], ka], "%s: shape data-n=%s (%s) segment %d %s %r became %r (tolerance %.3g)" % (what, x["n"], x["cls"], i, ka, pa, pb, tol))


def execute(case, se, out, trace):
    V = core.Violation
    # ---- generation 0
    try:
        if case["source"] == "doc":
            xml = gd.serialise(case["doc"])
            svg = se.SVG.parse(io.StringIO(xml), reify=case["reify"], ppi=case["ppi"])
            reify, ppi = case["reify"], case["ppi"]
        else:
            svg = build_tree(se, case["tree"])
            reify, ppi = False, 96.0
    except Exception as e:
        if core.is_harness_exc(e):
            raise
        out.count("skip:generation0-raises")
        trace.ev("skip-gen0", type(e).__name__)
        return
    if not isinstance(svg, se.SVG):
        out.count("skip:root-not-svg")
        return
    if case.get("touch"):
        apply_touch(se, svg, case["touch"], out)
    cur = svg
    cur_obs = _shapes(se, cur)
    if any(r["geom"] and r["geom"][0][0] == "error" for r in cur_obs):
        out.count("skip:source-geometry-unobservable")
        return
    kinds = sorted(set(r["cls"] for r in cur_obs))
    # writing is an observer: it must leave the tree as it was, and say the same thing when asked again
    try:
        t1 = cur.string_xml()
        obs_after = _shapes(se, cur)
        t2 = cur.string_xml()
    except Exception as e:
        if core.is_harness_exc(e):
            raise
        raise V("write-raises", [type(e).__name__, core.exc_sig(e)[1], "string"], "string_xml() of generation 0 raised %r" % e)
    try:
        compare_generations(se, cur_obs, obs_after, 0.0, V, "write-mutates", "the tree before and after string_xml()")
    except core.Violation as v:
        raise V("write-mutates", v.sig, v.detail)
    if t1 != t2:
        raise V("write-not-repeatable", ["string"], "two consecutive string_xml() calls on the same tree differ: %r ... vs %r ..." % (_first_diff(t1, t2)))
    out.count("probe:write-twice-compared")
    # the same source through a pristine instance of the library (what a freshly started process would write):
    # the text must not depend on what this long-lived process has written or parsed before
    try:
        sp = core.fresh_se()
        if case["source"] == "doc":
            twin = sp.SVG.parse(io.StringIO(xml), reify=case["reify"], ppi=case["ppi"])
        else:
            twin = build_tree(sp, case["tree"])
        if case.get("touch") and isinstance(twin, sp.SVG):
            apply_touch(sp, twin, case["touch"])
        t3 = twin.string_xml()
    except Exception as e:
        if core.is_harness_exc(e):
            raise
        t3 = None
        out.count("skip:pristine-write-raises")
    if t3 is not None and t3 != t1:
        raise V("write-history-dependent", ["string"], "string_xml() of this process differs from what a pristine instance of the library writes for the same source: %r ... vs %r ..." % (_first_diff(t1, t3)))
    if t3 is not None:
        out.count("probe:pristine-write-compared")
    fault = case["fault"]
    out.count("fault:" + fault["kind"] if fault["kind"] != "none" else "fault:none-scheduled")
    trace.ev("gen0", case["source"], len(cur_obs))
    done = 0
    for gi, g in enumerate(case["gens"]):
        # fault plan for this generation
        plan = simfs.FaultPlan(write_sizes=g["wsizes"], buffer_size=g["buffer"])
        faulted = fault["kind"] != "none" and fault.get("gen") == gi and g["write"] != "string"
        if faulted and fault["kind"] == "write-error":
            # enumerate the raw writes of the fault-free run of this very write, then fail one of them
            probe = write_generation(se, cur, g, simfs.FaultPlan(write_sizes=g["wsizes"], buffer_size=g["buffer"]), core.Outcome(), core.Trace())
            nwrites = probe[3].raw_writes if probe[3] is not None else 0
            if nwrites == 0:
                faulted = False
            else:
                k = 1 + int(fault["at_frac"] * nwrites) % nwrites
                plan = simfs.FaultPlan(write_sizes=g["wsizes"], buffer_size=g["buffer"], fail_write_at=k, errno_=fault["errno"])
                out.count("probe:write-error-at-last-write" if k == nwrites else "probe:write-error-mid-file")
        elif faulted and fault["kind"] == "close-error":
            plan = simfs.FaultPlan(write_sizes=g["wsizes"], buffer_size=g["buffer"], fail_close=True)
        vs = _viewport_scale(se, cur)
        tol = 2e-6 * (1.0 + max(_local_scale(se, cur), ob.snap_scale([s for r in cur_obs for s in r["geom"]]))) * max(1.0, vs)
        kind, payload, name, disk = write_generation(se, cur, g, plan, out, trace)
        out.state("%s|%s|vb=%s|reify=%s|%s>%s|%s" % (case["source"], "+".join(kinds)[:60], "y" if vs != 1.0 or getattr(cur, "viewbox", None) is not None else "n", reify, g["write"], g["read"], fault["kind"] if faulted else "none"))
        if kind == "raised":
            e = payload
            if core.is_harness_exc(e):
                raise core.HarnessFault("harness exception inside write: %r" % e) from e
            if faulted and isinstance(e, OSError):
                out.count("probe:io-error-reported")
                return  # a reported failure: nothing more is promised
            raise V("write-raises", [type(e).__name__, core.exc_sig(e)[1], g["write"]], "writing generation %d through %s raised %r" % (gi, g["write"], e))
        # ---- ack-durable / no-silent-loss
        if kind == "image":
            ok, res = _complete(payload)
            if not ok:
                tagname = "no-silent-loss" if faulted else "ack-durable"
                raise V(tagname, [g["write"], "faulted" if faulted else "fault-free"], "write_xml(%s) returned normally but the bytes on disk are not a complete document: %s" % (g["write"], res))
            if faulted:
                out.count("probe:io-error-survived-without-loss")
        else:
            try:
                ET.fromstring(payload)
            except Exception as e:
                raise V("ack-durable", ["string", "not-well-formed"], "string_xml() is not well-formed XML: %r" % e)
        # ---- read back
        try:
            nxt = read_back(se, kind, payload, name, g, out, reify, ppi)
        except Exception as e:
            if core.is_harness_exc(e):
                raise core.HarnessFault("harness exception inside read-back: %r" % e) from e
            raise V("round-trip", ["read-raises", type(e).__name__, core.exc_sig(e)[1]], "parsing what generation %d wrote raised %r" % (gi, e))
        nxt_obs = _shapes(se, nxt)
        trace.ev("read", gi, len(nxt_obs))
        compare_generations(se, cur_obs, nxt_obs, tol, V, "round-trip" if gi == 0 else "fixed-point", "generation %d -> %d via %s" % (gi, gi + 1, g["write"]))
        cur, cur_obs = nxt, nxt_obs
        done += 1
        out.count("events", 1 + (disk.raw_writes if disk is not None else 0))
    if done:
        out.count("probe:generations-compared", done)


# --------------------------------------------------------------------------
# shrinking
# --------------------------------------------------------------------------


def shrink(case):
    if len(case["gens"]) > 1:
        c = _copy.deepcopy(case)
        c["gens"] = case["gens"][:-1]
        yield c
    if case["fault"]["kind"] != "none":
        c = _copy.deepcopy(case)
        c["fault"] = {"kind": "none"}
        yield c
    for cand in core.ddmin_list(case.get("touch") or []):
        c = _copy.deepcopy(case)
        c["touch"] = cand
        yield c
    if case["source"] == "doc":
        doc = case["doc"]
        for e in list(gd.walk(doc)):
            if e["n"] == doc["n"]:
                continue
            c = _copy.deepcopy(case)
            c["doc"] = gd.remove_elements(doc, {e["n"]})
            yield c
        for e in gd.walk(doc):
            for a in list(e["attrs"]):
                if a in ("data-n",):
                    continue
                c = _copy.deepcopy(case)
                for x in gd.walk(c["doc"]):
                    if x["n"] == e["n"]:
                        del x["attrs"][a]
                yield c
    else:
        items = case["tree"]["items"]
        if len(items) > 1:
            for i in range(len(items)):
                c = _copy.deepcopy(case)
                del c["tree"]["items"][i]
                yield c
        for i, it in enumerate(items):
            if it["kind"] == "Group":
                if len(it["kids"]) > 1:
                    for j in range(len(it["kids"])):
                        c = _copy.deepcopy(case)
                        del c["tree"]["items"][i]["kids"][j]
                        yield c
                c = _copy.deepcopy(case)
                c["tree"]["items"][i] = it["kids"][0]
                yield c
            for key, simple in (("tr", ""), ("fill", "black"), ("stroke", "none"), ("sw", None), ("id", None)):
                if it.get(key) not in (simple, None) and it["kind"] != "Group":
                    c = _copy.deepcopy(case)
                    c["tree"]["items"][i][key] = simple
                    yield c
        for key in ("width", "height", "viewbox"):
            if case["tree"]["root"][key] is not None:
                c = _copy.deepcopy(case)
                c["tree"]["root"][key] = None
                yield c
    for gi, g in enumerate(case["gens"]):
        simple = {"write": g["write"], "read": "name", "pretty": False, "decl": None, "encoding": None, "wsizes": [None], "rsizes": [None], "buffer": None}
        if g != simple:
            c = _copy.deepcopy(case)
            c["gens"][gi] = simple
            yield c
        if g["write"] != "string":
            c = _copy.deepcopy(case)
            c["gens"][gi]["write"] = "string"
            yield c
