"""
C09 - path-data parsing is total: any string returns or raises ValueError only;
the valid prefix is retained and stays usable.

Read as crash consistency of an incremental builder under a fault model on
stored path data (torn, lost, repeated, corrupted records).  DESIGN.md 5.1.
"""
import copy as _copy
import re

from sim import core, gen_path as gp, observe as ob

PROPERTY = "C09"
LEVEL = "fault_enumeration"
QUICK_RUNS = 60000
THOROUGH_RUNS = 1200000
RULE = (
    "seeded runs: grammar-directed path data (1-8 commands, all letters, implicit repetition, inline close, number "
    "spellings, magnitudes 1e-3..1e5) plus a stratum of bare fragments; 0-3 injected stored-data faults per run "
    "(truncate at any position, token delete/duplicate/replace, character flip incl. NUL/DEL/NBSP/non-ASCII/astral, "
    "junk insertion, stripped leading move, bad arc flags, long repetition); each run parses into a fresh Path under "
    "a deterministic line-step budget, checks exception type, compares the retained segments with the library's parse "
    "of the longest grammar-conforming prefix (independent recogniser), then drives d()/d(relative)/d(smooth)/bbox()/"
    "length()/abs(p*M) on whatever was left behind. distinct = distinct (fault kind(s), command letter at the error, "
    "lexer position class, outcome class) cells; non-trivial = a fault changed the string or the string is a fragment."
)
ASSUMPTIONS = [
    "the prefix oracle follows the SVG 2 number grammar and is skipped (counted) where SVG 1.1 and SVG 2 disagree (`1.`)",
    "follow-up operations are skipped (counted) when a literal overflows a double: inf/nan are outside 'real numeric coordinates'",
    "step budget constants are 20x the maximum observed on the pinned tree over the calibration corpus",
]

KINDS = ["truncate", "tok_delete", "tok_dup", "tok_replace", "char_flip", "insert", "strip_context", "bad_flag"]

# step budget, linear in the input: A*len + C. (Until repo fix "close lookup" every close walked back to its move,
# and the budget carried a quadratic allowance for that; with the fix the parser is linear and so is the budget.)
STEP_A = 700
STEP_C = 5000
FOLLOW_STEP_BUDGET = 3_000_000


def step_budget(s):
    return STEP_A * len(s) + STEP_C


# --------------------------------------------------------------------------
# generation
# --------------------------------------------------------------------------


def _fault(ch, kind, toks, style):
    """Apply one fault to the token list or to the rendered string.
    Returns (new_toks or None, new_s or None, descriptor)."""
    s = gp.render_tokens(toks, style)
    if kind == "truncate":
        k = ch.int(0, max(0, len(s) - 1))
        return None, s[:k], {"kind": kind, "at": k, "of": len(s)}
    if kind == "tok_delete" and toks:
        i = ch.int(0, len(toks) - 1)
        return toks[:i] + toks[i + 1 :], None, {"kind": kind, "tok": i, "what": toks[i][0]}
    if kind == "tok_dup" and toks:
        i = ch.int(0, len(toks) - 1)
        return toks[: i + 1] + [toks[i]] + toks[i + 1 :], None, {"kind": kind, "tok": i, "what": toks[i][0]}
    if kind == "tok_replace" and toks:
        i = ch.int(0, len(toks) - 1)
        what = ch.choice(["number", "command", "flag", "junk", "extreme"])
        if what == "extreme":
            # only numeric tokens are replaced by an extreme magnitude: the string stays grammar-conforming
            nums = [j for j, t in enumerate(toks) if t[0] == "num"]
            if nums:
                i = ch.choice(nums)
            new = ("num", ch.choice(gp.EXTREME_NUMBERS))
        elif what == "number":
            new = ("num", gp.gen_number(ch, 1.0))
        elif what == "command":
            new = ("cmd", ch.choice(gp.LETTERS))
        elif what == "flag":
            new = ("flag", ch.choice(["0", "1", "2", "7", "-1", "01"]))
        else:
            new = ("num", ch.choice(gp.JUNK_STRINGS))
        return toks[:i] + [new] + toks[i + 1 :], None, {"kind": kind, "tok": i, "what": toks[i][0], "by": what}
    if kind == "char_flip" and s:
        i = ch.int(0, len(s) - 1)
        c = ch.choice(gp.JUNK_CHARS)
        return None, s[:i] + c + s[i + 1 :], {"kind": kind, "at": i, "was": s[i], "by": c}
    if kind == "insert":
        i = ch.int(0, len(s))
        c = ch.choice(gp.JUNK_CHARS + gp.JUNK_STRINGS)
        return None, s[:i] + c + s[i:], {"kind": kind, "at": i, "by": c}
    if kind == "strip_context" and toks:
        # remove the leading move so that the first drawn command has no current point
        i = 0
        if toks[0][0] == "cmd" and toks[0][1] in "Mm":
            i = 1
            while i < len(toks) and toks[i][0] != "cmd":
                i += 1
        return toks[i:], None, {"kind": kind, "dropped_tokens": i}
    if kind == "bad_flag":
        idx = [i for i, t in enumerate(toks) if t[0] == "flag"]
        if idx:
            i = ch.choice(idx)
            v = ch.choice(["2", "3", "9", "-1", "1.0", "00", "x"])
            return toks[:i] + [("flag", v)] + toks[i + 1 :], None, {"kind": kind, "tok": i, "by": v}
    return None, None, None


def _poison(ch):
    """A damaged string parsed (on another, fresh path) between two parses of the case's string."""
    if ch.coin(0.5):
        pre = ch.choice(["", "M0,0 ", "M1,2 L3,4 ", "M0,0 L1,1 z ", "M0,0 L 1 ", "M0,0 C1,1 2,2 ", "M5,5 Q1,1 "])
        return pre + ch.choice(gp.FRAGMENTS)
    cmds = gp.gen_cmds(ch, ch.int(1, 5), mag=ch.choice(gp.MAGS))
    s = gp.render(cmds, ch.int(0, 63))
    k = ch.int(0, max(0, len(s) - 1))
    s = s[:k]
    if ch.coin(0.4):
        s += ch.choice([" z", "z 5", " 1 z", "x", " L", " 7"])
    return s


def generate(seed, index, tier):
    case = _generate(seed, index, tier)
    if not case.get("long") and (index // 16) % 3 == 1:
        ch = core.Chooser(seed ^ 0x5EED)
        case["poison"] = [_poison(ch) for _ in range(ch.int(1, 2))]
    return case


def _generate(seed, index, tier):
    ch = core.Chooser(seed)
    st = index % 16
    case = {"faults": []}
    if st in (10, 11):
        frag = gp.FRAGMENTS[(index // 16) % len(gp.FRAGMENTS)]
        if st == 11:
            pre = ch.choice(["M0,0 ", "M1,2 L3,4 ", "M0,0 L1,1 z ", "m1,1 ", "M0,0 Q1,1 2,2 ", "M0,0 C1,1 2,2 3,3 ", "M1,1 M2,2 ", "M0,0 z "])
            frag = pre + frag
        case["stratum"] = "fragment"
        case["orig"] = frag
        case["s"] = frag
        if ch.coin(0.3):
            k = ch.int(0, len(frag))
            case["s"] = frag[:k]
            case["faults"].append({"kind": "truncate", "at": k, "of": len(frag)})
        return case
    if st == 13 and (index // 16) % 16 == 0:
        # very long input: a block of commands (each block begins with a move) repeated
        block = gp.gen_cmds(ch, ch.int(2, 5), mag=ch.choice(gp.MAGS))
        reps_max = 4000 if tier == "thorough" else 600
        import math

        reps = int(math.exp(ch.uniform(math.log(20), math.log(reps_max))))
        s = (gp.render(block, ch.int(0, 63)) + " ") * reps
        if ch.coin(0.4):
            # one move for the whole input: every repetition draws on from the current point and closes to that move
            body = [c for c in block[1:] if c["c"] not in "Mm"] + [{"c": ch.choice("zZ"), "g": [], "zc": 0}]
            s = gp.render(block[:1], 0) + " " + (gp.render(body, ch.int(0, 63)) + " ") * reps
        case["stratum"] = "long"
        case["orig"] = None
        case["long"] = True
        case["faults"].append({"kind": "long", "reps": reps, "len": len(s)})
        if ch.coin(0.6):
            k = ch.int(len(s) // 2, len(s) - 1)
            tail = ch.choice(["", "x", "h", "a 1", "L 1", "z 5", "\x00"])
            s = s[:k] + tail
            case["faults"].append({"kind": "truncate", "at": k, "of": len(s)})
        case["s"] = s
        return case
    pre = None
    if st == 15 and (index // 16) % 2 == 0:
        # the damaged data continues an existing, valid path (append after a crash-free prefix)
        pre = gp.render(gp.gen_cmds(ch, ch.int(1, 4), mag=ch.choice(gp.MAGS), allow_zc=False), ch.int(0, 63))
        case["pre"] = pre
    n = ch.int(1, 8)
    letters = None
    if ch.coin(0.3):
        # bias toward the command kinds with the least-guarded operand handling
        letters = ch.choice(["HhVv", "AaHhVvZz", "SsTtZz", "AaZzMm", "CcQqZz"])
    cmds = gp.gen_cmds(ch, n, mag=ch.choice(gp.MAGS), letters=letters, leading_move=pre is None)
    style = ch.int(0, 63)
    toks = gp.tokens_of(cmds)
    orig = gp.render_tokens(toks, style)
    case["orig"] = orig
    if st == 0:
        case["stratum"] = "control"
        case["s"] = orig
        return case
    if st in (1, 2, 14):
        kinds = ["truncate"]
    elif 3 <= st <= 9:
        kinds = [KINDS[st - 2]]
    else:
        kinds = [ch.choice(KINDS) for _ in range(ch.int(2, 3))]
    case["stratum"] = "+".join(kinds)
    s = None
    for kind in kinds:
        if s is not None:
            # once a char-level fault was applied, further faults are char-level on s
            if kind in ("truncate",):
                k = ch.int(0, max(0, len(s) - 1))
                s = s[:k]
                case["faults"].append({"kind": kind, "at": k})
            else:
                i = ch.int(0, len(s))
                c = ch.choice(gp.JUNK_CHARS)
                s = s[:i] + c + s[i:]
                case["faults"].append({"kind": "insert", "at": i, "by": c})
            continue
        nt, ns, d = _fault(ch, kind, toks, style)
        if d is None:
            continue
        case["faults"].append(d)
        if nt is not None:
            toks = nt
        else:
            s = ns
    if s is None:
        s = gp.render_tokens(toks, style)
    case["s"] = s
    return case


# --------------------------------------------------------------------------
# execution and oracles
# --------------------------------------------------------------------------


def _cmd_at_error(e):
    tb = e.__traceback__
    cmd = "?"
    while tb is not None:
        f = tb.tb_frame
        if f.f_code.co_name == "parse" and "cmd" in f.f_locals and f.f_code.co_filename.endswith("svgelements.py"):
            cmd = str(f.f_locals.get("cmd"))
        tb = tb.tb_next
    return cmd


def _lexer_pos(e):
    tb = e.__traceback__
    while tb is not None:
        f = tb.tb_frame
        if f.f_code.co_name == "parse" and "self" in f.f_locals and hasattr(f.f_locals["self"], "pos") and f.f_code.co_filename.endswith("svgelements.py"):
            try:
                return int(f.f_locals["self"].pos)
            except Exception:
                return None
        tb = tb.tb_next
    return None


def _pos_class(s, pos):
    if pos is None:
        return "?"
    if pos >= len(s):
        return "eof"
    c = s[pos]
    if c in "0123456789.":
        return "in-number"
    if c in "+-":
        return "sign"
    if c in "eE":
        return "exponent"
    if c in gp.LETTERS:
        return "command"
    if c in " ,\t\n\r\x0c":
        return "separator"
    return "junk"


def _bounded(fn, budget):
    """Run fn under the line-step budget. Returns (exception or None, exceeded)."""
    exc = None
    core.STEPS.start(budget)
    try:
        fn()
    except core.StepBudgetExceeded:
        pass
    except MemoryError as e:
        exc = e
    except Exception as e:
        exc = e
    core.STEPS.stop()
    return exc, core.STEPS.exceeded


def execute(case, se, out, trace):
    V = core.Violation
    s = case["s"]
    kinds = [f["kind"] for f in case["faults"]]
    for k in kinds:
        out.count("fault:" + k)
    if not kinds:
        out.count("fault:none")
    trace.ev("input", s if len(s) < 300 else "%s...(%d)" % (s[:100], len(s)))
    long_input = bool(case.get("long"))

    # --- 1+2: parse into a fresh path under the step budget -------------------
    pre = case.get("pre")
    p = se.Path()
    npre = 0
    if pre is not None:
        try:
            p.parse(pre)
        except Exception:
            out.count("skip:prefix-path-raises")
            return
        npre = len(p)
        out.count("fault:continuation-of-existing-path")
    budget = step_budget(s)
    exc = None
    core.STEPS.start(budget)
    try:
        p.parse(s)
    except core.StepBudgetExceeded:
        pass
    except Exception as e:
        exc = e
    steps = core.STEPS.stop()
    out.steps += steps
    out.count("events", 1)
    if core.STEPS.exceeded or steps > budget:
        raise V("steps", ["parse", "len=%d" % min(len(s), 9999)], "parse of %d chars did not finish within %d line steps (budget = %d*len + %d)" % (len(s), budget, STEP_A, STEP_C))
    outcome = "returned" if exc is None else type(exc).__name__
    cmd = _cmd_at_error(exc) if exc is not None else "-"
    pos = _lexer_pos(exc) if exc is not None else None
    trace.ev("parse", outcome, cmd, pos, ob.kinds(p))
    out.state("%s|%s|%s|%s" % ("+".join(sorted(set(kinds))) or "none", cmd, _pos_class(s, pos), outcome))
    if exc is not None and not isinstance(exc, ValueError):
        raise V("exc-type", [type(exc).__name__, core.exc_sig(exc)[1], cmd], "Path().parse(%r) raised %r" % (_short(s), exc))
    if exc is not None:
        out.count("probe:parse-raised-ValueError")

    # constructor form: exception type only
    if not long_input and pre is None:
        c_exc, over = _bounded(lambda: se.Path(s), budget)
        if over:
            raise V("steps", ["ctor", "len=%d" % min(len(s), 9999)], "Path(%r) did not finish within %d line steps" % (_short(s), budget))
        if c_exc is not None and not isinstance(c_exc, ValueError):
            raise V("exc-type", [type(c_exc).__name__, core.exc_sig(c_exc)[1], _cmd_at_error(c_exc), "ctor"], "Path(%r) raised %r" % (_short(s), c_exc))
        if (c_exc is None) != (exc is None):
            out.count("probe:ctor-and-parse-differ")

    # --- 3: prefix retained ---------------------------------------------------
    if not long_input:
        if gp.number_grammar_ambiguous(s):
            out.count("skip:prefix-number-grammar-ambiguous")
        else:
            cut = gp.longest_valid_prefix(s, continuation=pre is not None)
            # the valid prefix is parsed by a pristine instance of the library (nothing kept from earlier calls)
            ref = core.fresh_se().Path()

            def _ref():
                if pre is not None:
                    ref.parse(pre)
                ref.parse(s[:cut])

            r_exc, r_over = _bounded(_ref, 2 * budget + 20000)
            ref_ok = r_exc is None and not r_over
            if not ref_ok:
                out.count("skip:prefix-reference-raises")
            if ref_ok:
                trace.ev("prefix", cut, ob.kinds(ref))
                if cut < len(s):
                    out.count("probe:prefix-shorter-than-input")
                if len(p) < len(ref):
                    raise V("prefix", ["lost", cmd, outcome], "parse(%r) retained %d segments [%s]; the valid prefix %r has %d [%s]" % (_short(s), len(p), ob.kinds(p), _short(s[:cut]), len(ref), ob.kinds(ref)))
                a = ob.path_snap(list(p)[: len(ref)])
                b = ob.path_snap(list(ref))
                ok, msg = ob.snaps_equal(a, b, rel=1e-12)
                if not ok:
                    raise V("prefix", ["altered", cmd, outcome], "parse(%r): retained prefix differs from the parse of the valid prefix %r: %s" % (_short(s), _short(s[:cut]), msg))
                if len(p) > len(ref):
                    out.count("probe:lenient-extra-segments")

    # --- history independence: the result is a function of the string, not of earlier calls -------
    if case.get("poison"):
        first = (outcome, ob.path_snap(list(p)))
        for ps in case["poison"]:
            out.count("fault:poison-parse-between")
            q0 = se.Path()
            _bounded(lambda: q0.parse(ps), step_budget(ps))
        p2 = se.Path()

        def _again():
            if pre is not None:
                p2.parse(pre)
            p2.parse(s)

        exc2, over2 = _bounded(_again, 2 * budget + 20000)
        if over2:
            raise V("history", ["steps"], "parse(%r) finished at first but not within %d line steps after an unrelated parse of %r" % (_short(s), 2 * budget, case["poison"]))
        second = ("returned" if exc2 is None else type(exc2).__name__, ob.path_snap(list(p2)))
        trace.ev("reparse", second[0], ob.kinds(p2))
        if first[0] != second[0]:
            raise V("history", ["outcome", first[0], second[0]], "parse(%r) %s at first but %s after an unrelated parse of %r: the result depends on earlier calls" % (_short(s), first[0], second[0], case["poison"]))
        ok2, msg2 = ob.snaps_equal(first[1], second[1], rel=0.0)
        if not ok2:
            raise V("history", ["segments", first[0]], "parse(%r) retained [%s] at first but [%s] after an unrelated parse of %r (%s): the result depends on earlier calls" % (_short(s), ob.kinds(p), ob.kinds(p2), case["poison"], msg2))
        out.count("probe:history-independence-checked")

    # --- 4: usable ------------------------------------------------------------
    segs = list(p)
    ok, msg, nonfinite = ob.all_points_numeric(segs)
    if not ok:
        raise V("usable", ["coordinate", cmd, outcome], "parse(%r) left %s" % (_short(s), msg))
    if nonfinite:
        if _literal_overflows(s) or (pre is not None and _literal_overflows(pre)):
            # a literal that no double can hold, or so extreme that ordinary arithmetic on it leaves the range:
            # inf/nan are then outside "real numeric coordinates" by the input's doing
            out.count("skip:usable-literal-extreme")
            return
        raise V("usable", ["coordinate-nonfinite", cmd, outcome], "parse(%r) retained a segment with an infinite or NaN coordinate although no number in the data exceeds 1e150 in magnitude: %s" % (_short(s), [ob.seg_points(x) for x in segs if not all(ob.finite(v) for pnt in ob.seg_points(x) if isinstance(pnt, tuple) for v in pnt)][:1]))
    if long_input:
        follow = [("d", lambda: p.d()), ("bbox", lambda: p.bbox())]
    else:
        scale = min(1e300, max(1.0, ob.snap_scale(ob.path_snap(segs))))
        follow = [
            ("d", lambda: p.d()),
            ("d-relative", lambda: p.d(relative=True)),
            ("d-smooth", lambda: p.d(smooth=True)),
            ("bbox", lambda: p.bbox()),
            ("length", lambda: p.length(error=max(1e-3, 1e-5 * scale), min_depth=3)),
            ("abs-mul", lambda: abs(p * se.Matrix("rotate(30) scale(2,3)")).d()),
        ]
    for name, fn in follow:
        out.count("op:" + name)
        core.STEPS.start(FOLLOW_STEP_BUDGET)
        try:
            r = fn()
        except core.StepBudgetExceeded:
            core.STEPS.stop()
            out.count("skip:follow-up-step-budget")
            continue
        except RecursionError as e:
            raise V("usable", [name, "RecursionError", core.exc_sig(e)[1]], "%s() on the result of parse(%r) raised RecursionError" % (name, _short(s)))
        except Exception as e:
            raise V("usable", [name, type(e).__name__, core.exc_sig(e)[1]], "%s() on the result of parse(%r) [%s] raised %r" % (name, _short(s), ob.kinds(p), e))
        finally:
            core.STEPS.stop()
        trace.ev(name, r if not isinstance(r, str) or len(r) < 200 else len(r))
    out.count("probe:usable-checked")


def _literal_overflows(s):
    for m in _NUMTOK.finditer(s):
        try:
            v = float(m.group())
        except (ValueError, OverflowError):
            return True
        if v != v or v in (float("inf"), float("-inf")):
            return True
        if abs(v) > 1e150:
            # beyond the square root of what a double holds: sums, squares and reflections of such
            # operands legitimately leave the range; only the exception type is judged for them.
            # (Tiny operands are not excused: what underflows is zero, not infinite.)
            return True
    return False


_NUMTOK = re.compile(r"[-+]?(?:[0-9]*\.[0-9]+|[0-9]+)(?:[eE][-+]?[0-9]+)?")


def _short(s):
    return s if len(s) <= 160 else s[:80] + "...(%d chars)..." % len(s) + s[-40:]


# --------------------------------------------------------------------------
# shrinking: operate on the damaged string itself
# --------------------------------------------------------------------------


def shrink(case):
    s = case["s"]
    n = len(s)

    def mk(ns):
        c = {"s": ns, "orig": case.get("orig"), "faults": case["faults"], "stratum": case.get("stratum"), "shrunk": True}
        if case.get("pre") is not None:
            c["pre"] = case["pre"]
        if case.get("poison"):
            c["poison"] = case["poison"]
        if case.get("long") and len(ns) > 2000:
            c["long"] = True
        return c

    size = n // 2
    while size >= 1:
        for st in range(0, n, size):
            ns = s[:st] + s[st + size :]
            if len(ns) < n:
                yield mk(ns)
        if size == 1:
            break
        size //= 2
    if case.get("poison") and len(case["poison"]) > 1:
        for k in range(len(case["poison"])):
            c = mk(s)
            c["poison"] = case["poison"][:k] + case["poison"][k + 1 :]
            yield c
    # simplify characters
    for i, ch_ in enumerate(s):
        if ch_ in "23456789":
            yield mk(s[:i] + "1" + s[i + 1 :])
