"""
C17 - appending path data continues the parse: Path(a) + b == Path(a b).

Simulated as a history of append operations on one evolving object, checked
after every step against the single-copy reference (the library's own one-shot
parse of the concatenated text).  See DESIGN.md 5.4.
"""
import copy as _copy

from sim import core, gen_path as gp, observe as ob

PROPERTY = "C17"
LEVEL = "exploration"
QUICK_RUNS = 100000
THOROUGH_RUNS = 1500000
RULE = (
    "seeded histories: a grammar-directed path (2-8 commands, every letter, implicit repetition, inline close, "
    "varied number spellings/separators, magnitudes 1e-3..1e5) is split at 1-3 command boundaries; the pieces are "
    "appended in order by scheduler-chosen forms (p=p+b, p+=b, p.parse(b), segment+b) with observers and empty "
    "appends interleaved; stratified so that every ordered pair (last letter of a, first letter of b) occurs; "
    "plus path+path and path+shape concatenations. distinct = distinct (last letter of a, first letter of b, "
    "append form) cells and (mode, shape kind) cells reached; a run is non-trivial when at least one append was "
    "compared with the one-shot reference."
)

FORMS = ["add", "iadd", "parse"]
NOISE = ["d", "drel", "bbox", "length", "copy", "empty", "ws", "len", "eq"]
SHAPES = ["Rect", "RectR", "Circle", "Ellipse", "SimpleLine", "Polyline", "Polygon", "Path"]


def _num(ch, mag=100.0):
    v = ch.int(-999, 999) / 10.0
    return v * mag / 100.0


def _gen_shape(ch):
    kind = ch.choice(SHAPES)
    tr = ch.choice(["", "", "translate(3,4)", "rotate(30)", "scale(2,3)", "scale(-1,1)", "matrix(1,0.5,-0.3,2,5,6)"])
    if kind in ("RectR", "Circle", "Ellipse") and tr.startswith("matrix"):
        # an arc under shear has no exact (rx, ry, rotation) spelling from prx/pry lengths: how d() serialises it is
        # C07/C02 territory, and C17's oracle must not depend on it (DESIGN 4, rule 3)
        tr = "rotate(-75)"
    if kind == "Path":
        # Path += Path copies the operand's *untransformed* segments; the property quantifies over paths parsed
        # from strings (identity transform), so a lazily transformed right operand is outside C17
        tr = ""
    if kind == "Rect":
        args = [_num(ch), _num(ch), abs(_num(ch)) + 1, abs(_num(ch)) + 1]
    elif kind == "RectR":
        args = [_num(ch), _num(ch), abs(_num(ch)) + 10, abs(_num(ch)) + 10, ch.int(1, 4), ch.int(1, 4)]
    elif kind == "Circle":
        args = [_num(ch), _num(ch), abs(_num(ch)) + 0.5]
    elif kind == "Ellipse":
        args = [_num(ch), _num(ch), abs(_num(ch)) + 0.5, abs(_num(ch)) + 0.5]
    elif kind == "SimpleLine":
        args = [_num(ch), _num(ch), _num(ch), _num(ch)]
    elif kind in ("Polyline", "Polygon"):
        args = [_num(ch) for _ in range(2 * ch.int(2, 5))]
    else:
        args = []
    return {"kind": kind, "args": args, "transform": tr}


def generate(seed, index, tier):
    ch = core.Chooser(seed)
    r = index % 10
    mode = "str"
    if r == 8:
        mode = "pathpath"
    elif r == 9:
        mode = "pathshape"
    mag = ch.choice(gp.MAGS)
    pair = (index // 10) % 400
    la, fb = gp.LETTERS[pair // 20], gp.LETTERS[pair % 20]
    n = ch.int(2, 8)
    cmds = gp.gen_cmds(ch, n, mag=mag)
    case = {"mode": mode, "mag": mag}
    if mode == "str":
        # force the stratified boundary pair at a split point
        k = ch.int(1, len(cmds) - 1)
        if k == 1 and la not in "Mm":
            cmds.insert(1, None)
            k = 2
        a_last = gp.gen_cmds(ch, 1, mag=mag, leading_move=False, letters=la)[0] if la not in "Mm" or k > 1 else None
        b_first = gp.gen_cmds(ch, 1, mag=mag, leading_move=False, letters=fb)[0]
        if a_last is not None:
            cmds[k - 1] = a_last
        cmds = [c for c in cmds if c is not None]
        k = min(k, len(cmds))
        cmds.insert(k, b_first)
        cuts = {k}
        for _ in range(ch.int(0, 2)):
            cuts.add(ch.int(1, len(cmds) - 1))
        cuts = sorted(cuts)
        pieces = []
        prev = 0
        for c in cuts + [len(cmds)]:
            if c > prev:
                pieces.append(cmds[prev:c])
                prev = c
        case["pieces"] = pieces
        case["styles"] = [ch.int(0, 63) for _ in pieces]
        first = "path"
        p0 = pieces[0]
        if len(p0) == 1 and len(p0[0]["g"]) == 1 and p0[0]["c"] in "Mm" and ch.coin(0.5):
            first = "seg"
        case["first"] = first
        case["forms"] = [ch.choice(FORMS) for _ in pieces[1:]]
        case["noise"] = [[ch.choice(NOISE) for _ in range(ch.int(0, 2))] if ch.coin(0.5) else [] for _ in pieces[1:]]
        case["pathobj"] = [ch.coin(0.5) for _ in range(9)]
        if ch.coin(0.2):
            case["pads"] = [[ch.choice(["", " ", "\n", "\t "]), ch.choice(["", " ", "  \n"])] for _ in range(3)]
        if ch.coin(0.35):
            # a control coordinate (never an end point) of a curve in any piece but the last
            cands = []
            for pi, piece in enumerate(pieces[:-1]):
                for ci, cmd in enumerate(piece):
                    u = cmd["c"].upper()
                    nctrl = {"Q": 2, "C": 4, "S": 2}.get(u, 0)
                    if cmd.get("zc"):
                        continue
                    for gi, g in enumerate(cmd["g"]):
                        for ai in range(min(nctrl, len(g))):
                            cands.append((pi, ci, gi, ai))
            if cands:
                pi, ci, gi, ai = ch.choice(cands)
                case["twin"] = [pi, ci, gi, ai, gp.gen_number(ch, mag)]
        if ch.coin(0.25):
            case["obj_tail"] = {"kind": ch.choice(["Close", "Close", "Line", "QuadraticBezier", "CubicBezier"]), "nums": [float(_num(ch)) for _ in range(8)], "form": ch.choice(["add", "iadd", "append"]), "then": ch.coin(0.5)}
    elif mode == "pathpath":
        k = ch.int(1, len(cmds) - 1)
        a = cmds[:k]
        b = gp.gen_cmds(ch, ch.int(1, 5), mag=mag, leading_move=True)
        case["pieces"] = [a, b]
        case["coincide"] = ch.coin(0.3)
        # the right operand as a subpath view of its path (a path like any other to the left operand)
        case["as_view"] = ch.int(0, 3) if ch.coin(0.25) else None
        case["styles"] = [ch.int(0, 63), ch.int(0, 63)]
        case["forms"] = [ch.choice(["add", "iadd"])]
        case["first"] = "path"
        case["noise"] = [[]]
    else:
        case["pieces"] = [cmds]
        case["styles"] = [ch.int(0, 63)]
        case["shape"] = _gen_shape(ch)
        case["empty_left"] = ch.coin(0.2)
        case["then"] = [_num(ch), _num(ch)] if ch.coin(0.5) else None
        case["forms"] = [ch.choice(["add", "iadd"])]
        case["first"] = "path"
        case["noise"] = [[]]
    return case


def _snap(p):
    return ob.path_snap(list(p))


def _d(p):
    try:
        return ("ok", p.d())
    except Exception as e:  # not C17's business; only equality of behaviour is
        return ("exc", type(e).__name__)


def _noise(se, p, kind, out):
    out.count("op:noise-" + kind)
    try:
        if kind == "d":
            p.d()
        elif kind == "drel":
            p.d(relative=True)
        elif kind == "bbox":
            p.bbox()
        elif kind == "length":
            p.length(error=1e-3, min_depth=3)
        elif kind == "copy":
            _copy.copy(p)
        elif kind == "empty":
            p += ""
        elif kind == "ws":
            p += " \n "
        elif kind == "len":
            len(p)
        elif kind == "eq":
            p == p
    except Exception:
        out.count("probe:observer-raised")
    return p


def _build_shape(se, spec):
    k = spec["kind"]
    a = spec["args"]
    if k in ("Rect", "RectR"):
        s = se.Rect(*a)
    elif k == "Circle":
        s = se.Circle(*a)
    elif k == "Ellipse":
        s = se.Ellipse(*a)
    elif k == "SimpleLine":
        s = se.SimpleLine(*a)
    elif k == "Polyline":
        s = se.Polyline(*a)
    elif k == "Polygon":
        s = se.Polygon(*a)
    else:
        s = se.Path("M1,2 L3,4 Q5,6 7,8 z")
    if spec["transform"]:
        s *= spec["transform"]
    return s


def execute(case, se, out, trace):
    # the one-shot reference is parsed by a pristine instance of the library: nothing the long-lived instance
    # has kept from earlier calls (of this or earlier histories) can leak into it
    se_ref = core.fresh_se()
    _execute_once(case, se, out, trace, se_ref)
    tw = case.get("twin")
    if tw and case["mode"] == "str":
        # the same history on a twin path that differs in one control point only: it ends every piece at the same
        # points, so whatever the first history left behind in the process is tempting to reuse
        c2 = _copy.deepcopy(case)
        pi, ci, gi, ai, val = tw
        try:
            c2["pieces"][pi][ci]["g"][gi][ai] = val
        except (IndexError, KeyError):
            return
        out.count("op:twin-history")
        _execute_once(c2, se, out, trace, se_ref, label="twin ")


def _execute_once(case, se, out, trace, se_ref, label=""):
    V = core.Violation
    pieces = [gp.render(p, st) for p, st in zip(case["pieces"], case["styles"])]
    pads = case.get("pads")
    if pads:
        # legal white space around the pieces
        pieces = [pads[i % len(pads)][0] + x + pads[i % len(pads)][1] for i, x in enumerate(pieces)]
    mode = case["mode"]
    trace.ev("case", mode, *pieces)
    # start object
    try:
        p = se.Path(pieces[0])
    except Exception as e:
        out.count("skip:first-piece-raises")
        trace.ev("skip", type(e).__name__)
        return
    if case["first"] == "seg" and len(p) == 1:
        p = p[0]
        out.count("op:first-as-segment")
    if mode == "str":
        for k, piece in enumerate(pieces[1:]):
            form = case["forms"][k]
            for nz in case["noise"][k]:
                if isinstance(p, se.Path):
                    p = _noise(se, p, nz, out)
            whole = " ".join(pieces[: k + 2])
            try:
                ref = se_ref.Path(whole)
                ref_exc = None
            except Exception as e:
                ref, ref_exc = None, type(e).__name__
            is_seg = not isinstance(p, se.Path)
            if is_seg:
                form = "seg"
            elif form in ("add", "iadd") and case["pieces"][k + 1][0]["c"] == "M" and case.get("pathobj", [False] * 9)[k % 9]:
                # a piece that begins with an absolute move may as well arrive as a Path object (extend, not parse)
                form = form + "_path"
            out.count("op:" + form)
            la = case["pieces"][k][-1]["c"]
            fb = case["pieces"][k + 1][0]["c"]
            out.state("%s|%s|%s" % (la, fb, form))
            before = None if is_seg else _snap(p)
            old = p
            try:
                if form == "seg":
                    p = p + piece
                elif form == "add":
                    p = p + piece
                elif form == "iadd":
                    p += piece
                elif form == "add_path":
                    p = p + se.Path(piece)
                elif form == "iadd_path":
                    p += se.Path(piece)
                else:
                    p.parse(piece)
                exc = None
            except Exception as e:
                exc = e
            trace.ev("append", form, piece, "exc" if exc else "ok")
            if ref is None:
                # the one-shot parse rejects the text: nothing to refine against
                out.count("skip:reference-raises")
                if exc is None:
                    out.count("probe:incremental-accepts-what-oneshot-rejects")
                return
            if exc is not None:
                raise V("append-raises", [type(exc).__name__, core.exc_sig(exc)[1], la, fb, form], "%r + %r raised %r; one-shot parse of %r succeeds" % (pieces[: k + 1], piece, exc, whole))
            if not isinstance(p, se.Path):
                raise V("append-type", [type(p).__name__, form], "result of %s is %r" % (form, type(p)))
            if form in ("add", "add_path"):
                after = _snap(old)
                ok, msg = ob.snaps_equal(before, after, rel=0.0)
                if not ok:
                    raise V("operand-modified", [la, fb, form], "left operand of + changed: %s" % msg)
            a, b = _snap(p), _snap(ref)
            trace.ev("state", ob.kinds(p))
            ok, msg = ob.snaps_equal(a, b, rel=1e-9, skip_move_start=form.endswith("_path"))
            if not ok:
                raise V("refinement", [la, fb, form, ob.kinds(ref)[-3:]] + (["twin"] if label else []), "%safter %s of %r to %r: %s ; incremental=%r one-shot=%r" % (label, form, piece, " ".join(pieces[: k + 1]), msg, _d(p), _d(ref)))
            out.count("probe:compared")
            # a length cached by an observer before this append must not survive it
            if any(nz == "length" for nzl in case["noise"][: k + 1] for nz in nzl):
                try:
                    lr = ref.length(error=1e-3, min_depth=3)
                except Exception:
                    lr = None
                if lr is not None:
                    try:
                        lp = p.length(error=1e-3, min_depth=3)
                    except Exception as e:
                        raise V("refinement-length", [la, fb, form, type(e).__name__], "length() raised %r after %s of %r although the one-shot path measures %r" % (e, form, piece, lr))
                    if not ob.close_num(lp, lr, 1e-9, 0.0):
                        raise V("refinement-length", [la, fb, form], "length() is %r after %s of %r (an observer measured the path before the append); the one-shot path measures %r" % (lp, form, piece, lr))
                    out.count("probe:length-after-append-compared")
        tail = case.get("obj_tail")
        if tail and isinstance(p, se.Path) and len(p) and p.current_point is not None:
            # one more piece arrives as a segment object taken from elsewhere (it states the start, and a close the
            # end, of the outline it came from): appended, it continues this path like its command would
            n = tail["nums"]
            F, G = se.Point(n[0], n[1]), se.Point(n[2], n[3])
            if tail["kind"] == "Close":
                seg, text = se.Close(F, G), "z"
            elif tail["kind"] == "Line":
                seg, text = se.Line(F, G), "L %r,%r" % (n[2], n[3])
            elif tail["kind"] == "QuadraticBezier":
                seg, text = se.QuadraticBezier(F, se.Point(n[4], n[5]), G), "Q %r,%r %r,%r" % (n[4], n[5], n[2], n[3])
            else:
                seg, text = se.CubicBezier(F, se.Point(n[4], n[5]), se.Point(n[6], n[7]), G), "C %r,%r %r,%r %r,%r" % (n[4], n[5], n[6], n[7], n[2], n[3])
            whole = " ".join(pieces) + " " + text + (" l 5,5" if tail["then"] else "")
            try:
                ref = se_ref.Path(whole)
            except Exception:
                out.count("skip:reference-raises")
                return
            form = tail["form"]
            out.count("op:object-" + form)
            try:
                if form == "add":
                    p = p + seg
                elif form == "iadd":
                    p += seg
                else:
                    p.append(seg)
                if tail["then"]:
                    p += "l 5,5"
            except Exception as e:
                raise V("append-raises", [type(e).__name__, core.exc_sig(e)[1], "object", tail["kind"], form], "%r %s %s(...) raised %r" % (" ".join(pieces), form, tail["kind"], e))
            ok, msg = ob.snaps_equal(_snap(p), _snap(ref), rel=1e-9)
            if not ok:
                raise V("refinement", ["object", tail["kind"], form], "%r, then a %s object from another outline by %s%s: %s ; incremental=%r one-shot of %r=%r" % (" ".join(pieces), tail["kind"], form, " and 'l 5,5'" if tail["then"] else "", msg, _d(p), whole, _d(ref)))
            trace.ev("object-append", form, tail["kind"], ob.kinds(p))
            out.count("probe:object-append-compared")
        return
    if mode == "pathpath":
        if case.get("coincide") and isinstance(p, se.Path) and p.current_point is not None and case["pieces"][1][0]["c"] in "Mm":
            # the appended path's own move goes exactly to where the left path stands
            cp = p.current_point
            rest = gp.render(case["pieces"][1][1:], case["styles"][1]) if len(case["pieces"][1]) > 1 else ""
            g0 = case["pieces"][1][0]["g"]
            tail0 = " ".join("%s,%s" % (g[0], g[1]) for g in g0[1:])
            pieces[1] = "M %r,%r %s %s" % (cp.x, cp.y, tail0, rest)
            out.count("probe:appended-move-coincides")
        try:
            q = se.Path(pieces[1])
        except Exception:
            out.count("skip:second-path-raises")
            return
        if case.get("as_view") is not None:
            try:
                n_sub = q.count_subpaths()
                view = q.subpath(case["as_view"] % n_sub) if n_sub else None
            except Exception:
                view = None
            if view is not None and len(view) and type(view[0]).__name__ == "Move":
                q = view
                out.count("probe:right-operand-is-a-subpath-view")
        form = case["forms"][0]
        out.count("op:pathpath-" + form)
        out.state("pathpath|%s|%s|%s" % (ob.kinds(p)[-1:], ob.kinds(list(q))[:2], form))
        sp, sq = _snap(p), _snap(q)
        old = p
        try:
            if form == "add":
                r = p + q
            else:
                p += q
                r = p
        except Exception as e:
            raise V("concat-raises", [type(e).__name__, core.exc_sig(e)[1], "pathpath"], "%r + Path(%r) raised %r" % (pieces[0], pieces[1], e))
        trace.ev("pathpath", form, ob.kinds(r))
        if form == "add":
            ok, msg = ob.snaps_equal(sp, _snap(old), rel=0.0)
            if not ok:
                raise V("operand-modified", ["pathpath", "left"], msg)
        ok, msg = ob.snaps_equal(sq, _snap(q), rel=0.0)
        if not ok:
            raise V("operand-modified", ["pathpath", "right"], msg)
        sr = _snap(r)
        if len(sr) != len(sp) + len(sq):
            raise V("concat-geometry", ["pathpath", "length"], "len %d != %d+%d" % (len(sr), len(sp), len(sq)))
        ok, msg = ob.snaps_equal(sr[: len(sp)], sp, rel=1e-12)
        if not ok:
            raise V("concat-geometry", ["pathpath", "first"], msg)
        ok, msg = ob.snaps_equal(sr[len(sp):], sq, rel=1e-12, skip_move_start=True)
        if not ok:
            raise V("concat-geometry", ["pathpath", "second"], msg)
        out.count("probe:compared")
        return
    # path + shape
    spec = case["shape"]
    if case.get("empty_left"):
        p = se.Path()
        out.count("probe:empty-left-operand")
    shape = _build_shape(se, spec)
    form = case["forms"][0]
    out.count("op:pathshape-" + form)
    out.state("pathshape|%s|%s|%s" % (spec["kind"], "T" if spec["transform"] else "I", form))
    try:
        want = [s for s in abs(se.Path(shape))]
        want_pts = [(type(s).__name__, ob.sample_points(s, 4)) for s in want]
    except Exception:
        out.count("skip:shape-reference-raises")
        return
    sp = _snap(p)
    shape_repr = repr(shape)
    old = p
    try:
        if form == "add":
            r = p + shape
        else:
            p += shape
            r = p
    except Exception as e:
        raise V("concat-raises", [type(e).__name__, core.exc_sig(e)[1], "pathshape", spec["kind"]], "Path(%r) + %r raised %r" % (pieces[0], shape, e))
    trace.ev("pathshape", form, ob.kinds(r))
    if form == "add":
        ok, msg = ob.snaps_equal(sp, _snap(old), rel=0.0)
        if not ok:
            raise V("operand-modified", ["pathshape", "left"], msg)
    if repr(shape) != shape_repr:
        raise V("operand-modified", ["pathshape", "right"], "%s -> %s" % (shape_repr, repr(shape)))
    sr = _snap(r)
    ok, msg = ob.snaps_equal(sr[: len(sp)], sp, rel=1e-12)
    if not ok:
        raise V("concat-geometry", ["pathshape", "first"], msg)
    tail = list(r)[len(sp):]
    if len(tail) != len(want):
        raise V("concat-geometry", ["pathshape", "count", spec["kind"]], "%d appended segments, shape has %d" % (len(tail), len(want)))
    has_arc = any(k == "Arc" for k, _ in want_pts)
    rel = 3e-5 if has_arc else 1e-9
    scale = 1.0
    for _k, pts in want_pts:
        for q in pts:
            if q is not None:
                scale = max(scale, abs(q[0]), abs(q[1]))
    for i, (seg, (k, pts)) in enumerate(zip(tail, want_pts)):
        if type(seg).__name__ != k:
            raise V("concat-geometry", ["pathshape", "kind", spec["kind"]], "segment %d is %s, shape has %s" % (i, type(seg).__name__, k))
        if k in ("Move",):
            got = [ob.pt(seg.end)]
            pts = pts[-1:]
        else:
            got = ob.sample_points(seg, 4)
        if not ob.close_val(got, pts, rel=0.0, absol=rel * scale):
            raise V("concat-geometry", ["pathshape", "points", spec["kind"]], "segment %d: %r vs %r" % (i, got, pts))
    out.count("probe:compared")
    if case.get("then"):
        # the sum is a path in the left operand's coordinate space: absolute data appended to it lands where it says
        tx, ty = case["then"]
        n_before = len(r)
        try:
            r += "L %r,%r" % (tx, ty)
            last = abs(r)[len(r) - 1]
        except Exception as e:
            raise V("append-raises", [type(e).__name__, core.exc_sig(e)[1], "after-shape", spec["kind"]], "appending to Path + %s raised %r" % (spec["kind"], e))
        if len(r) != n_before + 1 or type(last).__name__ != "Line" or not ob.close_val(ob.pt(last.end), (tx, ty), 1e-9, 1e-9):
            raise V("concat-geometry", ["pathshape", "then", spec["kind"]], "after Path + %s, appending 'L %r,%r' draws to %r" % (spec["kind"], tx, ty, ob.pt(last.end) if hasattr(last, "end") else last))
        out.count("probe:append-after-shape-compared")


def shrink(case):
    """One-step simplifications."""
    pieces = case["pieces"]
    # drop a command from a piece (pieces stay non-empty)
    for pi, piece in enumerate(pieces):
        if len(piece) > 1:
            for ci in range(len(piece)):
                if pi == 0 and ci == 0:
                    continue
                c = _copy.deepcopy(case)
                del c["pieces"][pi][ci]
                yield c
    # merge two adjacent pieces (drops a split)
    if case["mode"] == "str" and len(pieces) > 2:
        for pi in range(len(pieces) - 1):
            c = _copy.deepcopy(case)
            c["pieces"][pi] = c["pieces"][pi] + c["pieces"][pi + 1]
            del c["pieces"][pi + 1]
            del c["styles"][pi + 1]
            del c["forms"][pi if pi < len(c["forms"]) else -1]
            del c["noise"][pi if pi < len(c["noise"]) else -1]
            yield c
    if case.get("twin"):
        c = _copy.deepcopy(case)
        del c["twin"]
        yield c
    # drop noise
    for ni, nz in enumerate(case.get("noise", [])):
        if nz:
            c = _copy.deepcopy(case)
            c["noise"][ni] = []
            yield c
    # plain styles
    for si, st in enumerate(case["styles"]):
        if st != 0:
            c = _copy.deepcopy(case)
            c["styles"][si] = 0
            yield c
    # fewer groups, no inline close
    for pi, piece in enumerate(pieces):
        for ci, cmd in enumerate(piece):
            if len(cmd["g"]) > 1:
                c = _copy.deepcopy(case)
                c["pieces"][pi][ci]["g"] = cmd["g"][:1]
                yield c
    # simpler numbers
    for pi, piece in enumerate(pieces):
        for ci, cmd in enumerate(piece):
            for gi, g in enumerate(cmd["g"]):
                for ai, a in enumerate(g):
                    if cmd["c"].upper() == "A" and ai in (3, 4):
                        continue
                    for simple in ("0", "1", "2"):
                        if a != simple and a not in ("0", "1", "2"):
                            c = _copy.deepcopy(case)
                            c["pieces"][pi][ci]["g"][gi][ai] = simple
                            yield c
                            break
    if case.get("shape") and case["shape"]["transform"]:
        c = _copy.deepcopy(case)
        c["shape"]["transform"] = ""
        yield c
